"""C09 - Saved logits restore exactly; saved artefacts suffice to rebuild outputs.

Space: pages of 0..3 lines (ids l1..l3 over 1..2 regions); per line a variant = sparse matrix (5 shapes/sparsities incl.
an all-pruned row, negative and tiny |x| <= 1e-8 stored entries) x charset (2 orders incl. multi-code-point entries) x
frame window ([0,T], [1,T-1], [None,None]).  Operations on the live objects: save (path) / save_bytes, load into EVERY
target layout holding a subset of the ids (+ an unknown id) whose lines already carry other data, the chain
save->load->save->load, every way of removing 1 or 2 components from one line x missing_line_logits_ok in {F,T}, legacy files
without charset / window tables.  End-to-end: PAGE XML + logits -> rebuilt layout -> re-decoding (greedy, beam) and ALTO.

Oracle: a plain dict id -> (matrix, charset, window).
"""
import copy
import re
import itertools
import os
import pickle

import numpy as np

ID = 'C09'

MANIFEST = dict(
    technique='explicit-state exploration of save/load operation sequences on real PageLayout objects over a finite variant alphabet (all pages up to 3 lines x all target id-subsets x all component removals x legacy formats); reference model = plain dict; end-to-end re-decoding differential',
    text='Bounded exhaustive: every page of 0-3 lines over a 30-variant line alphabet (1 line: all; 2 lines: all pairs; 3 lines: 6x6x30), saved through the path and bytes variants and loaded into every layout holding a subset of the ids plus an unknown id (pre-filled with other data), with the save-load-save-load chain, every removal of one or two of {logits, charset, window} from each line under both values of missing_line_logits_ok, and legacy files. Restored matrices must be identical in values and sparsity structure, other lines untouched, missing components reported and nothing written; dense reconstruction keeps stored entries, floors pruned ones and normalises rows; a layout rebuilt from PAGE XML + logits must re-decode (greedy and beam) and export ALTO words identically. Added sub-sweeps: float32 matrices with a dominant entry, pruned entries stored as explicit zeros and csr / coo layouts, 12-line pages, a line that decodes to \'\', saved logits loaded into a layout that was already decoded and exported with other logits, and the page-level confidence filter on the rebuilt layout. ALTO export under min_line_confidence thresholds placed on the stored (three-decimal) and the full-precision line confidences. Every page is also saved from and loaded into layouts over every pair of page ids (None, equal, one a prefix of the other, a path): only the line ids decide what is restored. Partial files end to end: pages of 2-3 (thorough: 4) painted lines, every non-empty set of lines absent from the logits file (saved from a layout with fewer lines, or as lines without logits under missing_line_logits_ok), loaded into the layout rebuilt from PAGE XML with or without transcriptions and re-decoded: every line that got its logits back re-decodes to the original text, a line absent from the file keeps what it had. Results kept by the caller: on every saved and every fully restored layout (and on the rebuilt layout while it is decoded and exported) the dense matrices (both floors) and log-probabilities of all lines are collected first and compared afterwards with an entry-by-entry reconstruction, then one returned array is overwritten by the caller - every other kept result and the next reconstruction must be unaffected. Line index attributes: end-to-end pages of three distinct lines under every assignment of TextLine.index from {None, 0, 1, 2} (thorough: + 7), i.e. equal, descending and gapped indices as left behind by sorting lines or merging regions after a PAGE import - the rebuilt layout must export the ALTO text in the order of the original.',
    note='Matrix shapes up to 5x4; ids from a fixed set; pickle protocol as used by the code.',
    ref='3/C09')

MATS = [
    [[1.5, -2.0]],
    [[4.0, -1.0, -2.0, 0.5], [-1.5, 5.0, -0.5, 0.25], [-2.0, -1.0, -0.75, 6.0]],
    [[4.0, 0.0, 0.0, 0.5], [0.0, 5.0, 0.0, 0.0], [0.0, 0.0, -0.75, 6.0]],
    [[3.0, 0.0, -1.0], [0.0, 0.0, 0.0], [0.0, 2.5, 0.0], [-4.0, 0.0, 1.25], [0.0, 0.0, 7.0]],
    [[5e-9, -3.0, -9e-9], [-2.0, 4e-9, -1.0]],
]
CHARSETS = [['a', 'b', 'c'], ['c', 'b́', 'aa']]
WINDOWS = ['full', 'inner', 'none']
VARIANTS = [(m, c, w) for m in range(len(MATS)) for c in range(2) for w in range(3)]
SUB = [VARIANTS[i] for i in (0, 7, 14, 21, 28, 5)]
BOUNDS = {'quick': dict(three_line_third='sub', page_ids_on_three_line_pages='two', partial_file_lines=(2, 3), line_index_alphabet=(None, 0, 1, 2)),
          'thorough': dict(three_line_third='all', page_ids_on_three_line_pages='all', partial_file_lines=(2, 3, 4), line_index_alphabet=(None, 0, 1, 2, 7))}
BOUNDS['replay'] = BOUNDS['quick']
TMP = '/verif/.cache/tmp'
PAGE_IDS = [None, 'p', 'p.jpg', 'scans/p.tif']      # ids of the saving / the loading PageLayout


def setup(tier):
    os.makedirs(TMP, exist_ok=True)
    from pero_ocr.core.force_alignment import force_align
    force_align(np.asarray([[0.1, 2.0], [2.0, 0.1]]), [0], 1)


def shards(tier):
    out = [{'n': 0}, {'n': 1}]
    for i in range(len(VARIANTS)):
        out.append({'n': 2, 'first': i})
    for i in range(len(SUB)):
        out.append({'n': 3, 'first': i})
    out.append({'kind': 'e2e'})
    for first in range(len(BOUNDS[tier]['line_index_alphabet'])):
        out.append({'kind': 'e2e-index', 'first': first})
    out.append({'kind': 'filter'})
    out.append({'kind': 'big'})
    for nl in BOUNDS[tier]['partial_file_lines']:
        for first in range(len(PARTIAL_TEXTS)):
            out.append({'kind': 'partial', 'n': nl, 'first': first})
    return out


def run_shard(shard, ctx, tier):
    from mc.core import guarded_check
    import sys
    mod = sys.modules[__name__]
    if shard.get('kind') == 'filter':
        for margins in itertools.product(range(len(MARGINS)), repeat=3):
            guarded_check(mod, {'filter': list(margins)}, ctx)
        return
    if shard.get('kind') == 'partial':
        for rest in itertools.product(range(len(PARTIAL_TEXTS)), repeat=shard['n'] - 1):
            guarded_check(mod, {'partial': [shard['first']] + list(rest)}, ctx)
        return
    if shard.get('kind') == 'big':
        # pages with more lines than one digit can number (ids l1 .. l12: l1 is a prefix of l10, l11, l12)
        for step in (1, 5, 7):
            guarded_check(mod, {'lines': [list(VARIANTS[(3 + k * step) % len(VARIANTS)]) for k in range(12)], 'pids': 'two'}, ctx)
        return
    if shard.get('kind') == 'e2e-index':
        # three lines with distinct texts x every assignment of index attributes (None = a line made by an engine; equal, descending, gaps)
        alpha = BOUNDS[tier]['line_index_alphabet']
        for rest in itertools.product(alpha, repeat=2):
            guarded_check(mod, {'e2e': list(INDEX_TEXTS), 'index': [alpha[shard['first']]] + list(rest)}, ctx)
        return
    if shard.get('kind') == 'e2e':
        texts = [''.join(p) for n in range(0, 4) for p in itertools.product('ab ', repeat=n)]      # incl. a line that decodes to ''
        for t1 in texts:
            for t2 in ('ab', 'b a'):
                guarded_check(mod, {'e2e': [t1, t2]}, ctx)
        return
    n = shard['n']
    if n == 0:
        guarded_check(mod, {'lines': []}, ctx)
    elif n == 1:
        for v in VARIANTS:
            guarded_check(mod, {'lines': [list(v)]}, ctx)
    elif n == 2:
        for v in VARIANTS:
            guarded_check(mod, {'lines': [list(VARIANTS[shard['first']]), list(v)]}, ctx)
    else:
        third = VARIANTS if BOUNDS[tier]['three_line_third'] == 'all' else VARIANTS[::2]
        for b in SUB:
            for c in third:
                guarded_check(mod, {'lines': [list(SUB[shard['first']]), list(b), list(c)], 'pids': BOUNDS[tier]['page_ids_on_three_line_pages']}, ctx)


def mat(i):
    from scipy import sparse
    # matrix 3 (the one with an all-pruned row) is float32, the dtype the OCR engine produces; it also gets a large logit
    if i == 3:
        M = np.asarray(MATS[i], dtype=np.float32)
        M[0, 0] = 30.0          # with the -80 floor of the pruned row: a dynamic range beyond float32's exp() range
        return sparse.csc_matrix(M)
    return sparse.csc_matrix(np.asarray(MATS[i], dtype=np.float64))


def variant_fields(v):
    m, c, w = v
    M = mat(m)
    C = M.shape[1]
    chars = (CHARSETS[c] + ['d'])[:C - 1] + ['​']
    T = M.shape[0]
    win = {'full': [0, T], 'inner': [min(1, T - 1), max(T - 1, 1)], 'none': [None, None]}[WINDOWS[w]]
    return M, chars, win


def make_page(variants, ids=None, fill=True, page_id='p'):
    from pero_ocr.core.layout import PageLayout, RegionLayout, TextLine
    page = PageLayout(id=page_id, page_size=(100, 300))
    ids = ids if ids is not None else [f'l{i + 1}' for i in range(len(variants))]
    r1 = RegionLayout('r1', np.asarray([[0, 0], [300, 0], [300, 50], [0, 50]]))
    r2 = RegionLayout('r2', np.asarray([[0, 50], [300, 50], [300, 100], [0, 100]]))
    for k, lid in enumerate(ids):
        line = TextLine(id=lid, baseline=np.asarray([[10, 20 + 25 * k], [200, 20 + 25 * k]]),
                        polygon=np.asarray([[10, 5 + 25 * k], [200, 5 + 25 * k], [200, 24 + 25 * k], [10, 24 + 25 * k]]), heights=[12, 4])
        if fill and variants is not None:
            line.logits, line.characters, line.logit_coords = variant_fields(variants[k])
        (r1 if k < 2 else r2).lines.append(line)
    page.regions = [r1, r2]
    return page


def same_sparse(a, b):
    from scipy import sparse
    if not sparse.issparse(a) or not sparse.issparse(b) or a.shape != b.shape or a.dtype != b.dtype or a.format != b.format:
        return False
    a2, b2 = a.copy(), b.copy()
    a2.sort_indices(); b2.sort_indices()
    return (np.array_equal(a2.indptr, b2.indptr) and np.array_equal(a2.indices, b2.indices) and
            np.array_equal(a2.data, b2.data))


def check_dense(line, M, ctx, K, desc):
    dense_in = np.asarray(M.toarray())
    for floor in (-80, -30.5):
        d = line.get_dense_logits(floor) if floor != -80 else line.get_dense_logits()
        ctx.executed()
        stored = dense_in != 0
        if d.shape != dense_in.shape or not np.array_equal(d[stored], dense_in[stored]):
            ctx.violation('dense-keeps-stored-logits', f'{K}/get_dense_logits/stored-entry-changed',
                          f'{desc}: dense {d.tolist()} vs stored {dense_in.tolist()}')
            return
        if not np.all(d[~stored] == floor):
            ctx.violation('dense-floors-pruned-entries', f'{K}/get_dense_logits/floor', f'{desc}: {d.tolist()} floor {floor}')
            return
    # a pruned entry may also be STORED as an explicit 0.0 (pruning in place without eliminate_zeros, other sparse layouts): same dense result
    if M.nnz >= 2:
        keep_logits = line.logits
        for fmt in ('csc', 'csr', 'coo'):
            m2 = M.copy().tocsc()
            victim = (int(m2.indices[0]), int(np.searchsorted(m2.indptr, 0, side='right') - 1))
            m2.data[0] = 0.0                                     # first stored entry becomes an explicit zero
            want = np.asarray(M.toarray()).astype(np.float64)
            want[victim] = 0.0
            want[want == 0] = -80.0
            line.logits = m2.asformat(fmt)
            got = np.asarray(line.get_dense_logits(), dtype=np.float64)
            ctx.executed()
            if got.shape != want.shape or not np.array_equal(got, want):
                line.logits = keep_logits
                ctx.violation('dense-floors-pruned-entries', f'{K}/get_dense_logits/explicitly-stored-zero-not-floored',
                              f'{desc}: logits held as {fmt} matrix with an explicitly stored 0.0 at {victim}: dense {got.tolist()}, expected {want.tolist()}')
                return
        line.logits = keep_logits
        ctx.tag('explicit-zeros-and-other-sparse-formats')
    lp = line.get_full_logprobs()
    ctx.executed()
    if not (np.abs(np.exp(lp.astype(np.float64)).sum(axis=1) - 1).max() <= (1e-9 if lp.dtype == np.float64 else 1e-5)):   # float32 logits: float32 round-off; NaN-aware
        ctx.violation('dense-rows-normalised', f'{K}/get_full_logprobs/not-normalised', f'{desc}: row sums {np.exp(lp).sum(axis=1)}')


def ref_dense(M, floor):
    """entry-by-entry reconstruction: the floor everywhere, every stored entry written at its place (independent of toarray)"""
    M = M.tocoo()
    out = np.full(M.shape, floor, dtype=M.dtype)
    for r, c, x in zip(M.row.tolist(), M.col.tolist(), M.data.tolist()):
        out[r, c] = x
    return out


def same_values(a, b, tol=0.0):
    """NaN-aware: True only if both arrays have the same shape and every entry of a is within tol of b"""
    a, b = np.asarray(a, dtype=np.float64), np.asarray(b, dtype=np.float64)
    if a.shape != b.shape:
        return False
    if a.size == 0:
        return True
    return bool(np.abs(a - b).max() <= tol)


def check_held_results(pairs, ctx, K, desc, between=None):
    """the caller KEEPS what the dense reconstruction handed out while further reconstructions are made (of the same line with another
    floor, of the other lines, log-probabilities; `between`: consumers of the library itself), then looks at every kept result again: it must
    still be the reconstruction of its line.  Then the caller writes into ONE array it was given back: every other kept result is unchanged
    and the next reconstruction of that line is again that of the stored matrix.  `pairs` = [(line, matrix that was stored for it)]."""
    pairs = [(l, M) for l, M in pairs if l.logits is not None]
    if not pairs:
        return True
    held = []
    for line, M in pairs:
        held.append((line.id, 'get_dense_logits()', line.get_dense_logits(), ref_dense(M, -80), 0.0))
        held.append((line.id, 'get_dense_logits(-30.5)', line.get_dense_logits(-30.5), ref_dense(M, -30.5), 0.0))
        lp_ref = ref_dense(M, -80).astype(np.float64)
        lp_ref = lp_ref - np.logaddexp.reduce(lp_ref, axis=1)[:, np.newaxis]
        held.append((line.id, 'get_full_logprobs()', line.get_full_logprobs(), lp_ref, 1e-9 if M.dtype == np.float64 else 1e-3))
        ctx.executed(3)
    if between is not None:
        between()

    def first_wrong(skip=None):
        for k, (lid, what, got, want, tol) in enumerate(held):
            if k != skip and not same_values(got, want, tol):
                return lid, what, got, want
        return None
    bad = first_wrong()
    if bad is not None:
        ctx.violation('dense-keeps-stored-logits', f'{K}/dense/result-kept-by-the-caller-changed-by-later-calls',
                      f'{desc}: {bad[1]} of line {bad[0]} was kept while the dense matrices / log-probabilities of {[l.id for l, _ in pairs]} were '
                      f'reconstructed (each twice); afterwards the kept array is {np.asarray(bad[2]).tolist()}, the reconstruction of the stored matrix is '
                      f'{np.asarray(bad[3]).tolist()}')
        return False
    ctx.tag('dense-results-kept-across-later-reconstructions')
    if len({(M.shape[1], M.dtype.str) for _, M in pairs}) < len(pairs):
        ctx.tag('dense-results-of-lines-with-equal-alphabet-size-kept')
    # the caller owns what it was given back: it overwrites the first array
    held[0][2][...] = 4321.0
    bad = first_wrong(skip=0)
    if bad is not None:
        ctx.violation('dense-keeps-stored-logits', f'{K}/dense/writing-into-one-result-changes-another-result',
                      f'{desc}: the caller overwrote the array returned by {held[0][1]} for line {held[0][0]}; the array it holds from {bad[1]} for line '
                      f'{bad[0]} is now {np.asarray(bad[2]).tolist()}, the reconstruction of the stored matrix is {np.asarray(bad[3]).tolist()}')
        return False
    for line, M in pairs:
        got = line.get_dense_logits()
        ctx.executed()
        if not same_values(got, ref_dense(M, -80)):
            ctx.violation('dense-keeps-stored-logits', f'{K}/dense/reconstruction-after-the-caller-modified-an-earlier-result',
                          f'{desc}: after the caller overwrote the array it got for line {held[0][0]}, get_dense_logits() of line {line.id} returns '
                          f'{np.asarray(got).tolist()}, the reconstruction of the stored matrix is {ref_dense(M, -80).tolist()}')
            return False
    return True


def check_pages(case, ctx):
    variants = [tuple(v) for v in case['lines']]
    n = len(variants)
    ids = [f'l{i + 1}' for i in range(n)]
    model = {lid: variant_fields(v) for lid, v in zip(ids, variants)}
    ctx.state(tuple(variants))
    K = f'{ID}'
    desc0 = f'page lines {variants}'
    page = make_page(variants)
    path = os.path.join(TMP, f'c09-{os.getpid()}.logits')
    # ---- dense reconstruction on the original lines
    for line in page.lines_iterator():
        check_dense(line, model[line.id][0], ctx, K, f'{desc0} line {line.id}')
    if not check_held_results([(line, model[line.id][0]) for line in page.lines_iterator()], ctx, K, f'{desc0} (the layout that is saved)'):
        return
    blobs = {}
    page.save_logits(path)
    with open(path, 'rb') as f:
        blobs['path'] = f.read()
    os.remove(path)
    blobs['bytes'] = page.save_logits_bytes()
    ctx.executed(2)
    # legacy formats derived from the saved dictionary
    d = pickle.loads(blobs['bytes'])
    leg1 = {k: v for k, v in d.items() if k not in ('line_characters', 'logit_coords')}
    leg2 = {k: v for k, v in d.items() if k != 'logit_coords'}
    blobs['legacy-no-tables'] = pickle.dumps(leg1)
    blobs['legacy-no-window'] = pickle.dumps(leg2)
    universe = ids + ['zz']
    for how, blob in blobs.items():
        for r in (range(len(universe) + 1) if n <= 4 else (0, 1, len(universe) - 1, len(universe))):
            for S in itertools.combinations(universe, r):
                S = list(S)
                tgt = make_page(None, ids=S, fill=False)
                old = {}
                for k, line in enumerate(tgt.lines_iterator()):
                    if k % 2 == 0:    # pre-existing data on some lines
                        line.logits, line.characters, line.logit_coords = mat(0), ['x', '​'], [0, 1]
                    old[line.id] = (line.logits, line.characters, line.logit_coords)
                if how == 'path':
                    with open(path, 'wb') as f:
                        f.write(blob)
                    tgt.load_logits(path)
                    os.remove(path)
                else:
                    tgt.load_logits(blob)
                ctx.executed()
                desc = f'{desc0}, saved via {how}, loaded into layout with ids {S}'
                for line in tgt.lines_iterator():
                    if line.id in model:
                        M, chars, win = model[line.id]
                        if how == 'legacy-no-tables':
                            chars, win = None, [None, None]
                        elif how == 'legacy-no-window':
                            win = [None, None]
                        if not same_sparse(line.logits, M):
                            ctx.violation('restores-identical-matrix', f'{K}/load/matrix-differs/{how}',
                                          f'{desc}: line {line.id} got {None if line.logits is None else line.logits.toarray().tolist()} '
                                          f'expected {M.toarray().tolist()}')
                            return
                        if line.characters != chars or (line.characters is not None and type(line.characters) is not type(chars) and list(line.characters) != chars):
                            ctx.violation('restores-identical-charset', f'{K}/load/charset-differs/{how}', f'{desc}: line {line.id} {line.characters} vs {chars}')
                            return
                        if list(line.logit_coords) != win:
                            ctx.violation('restores-identical-window', f'{K}/load/window-differs/{how}', f'{desc}: line {line.id} {line.logit_coords} vs {win}')
                            return
                    else:
                        o = old[line.id]
                        if line.logits is not o[0] or line.characters is not o[1] or line.logit_coords is not o[2]:
                            ctx.violation('absent-lines-untouched', f'{K}/load/absent-line-modified', f'{desc}: line {line.id} was modified')
                            return
                if how in ('path', 'bytes') and set(S) == set(ids) and n:
                    # the restored lines are independent of each other: results kept by the caller across reconstructions of the other lines
                    if not check_held_results([(line, model[line.id][0]) for line in tgt.lines_iterator()], ctx, K, f'{desc} (the restored layout)'):
                        return
                    # chain: save the restored layout again and compare with the first file
                    again = pickle.loads(tgt.save_logits_bytes())
                    ctx.executed()
                    first = pickle.loads(blobs['bytes'])
                    ok = set(again) == set(first) and again['line_characters'] == first['line_characters'] and \
                        again['logit_coords'] == first['logit_coords'] and all(same_sparse(again[i], first[i]) for i in ids)
                    if not ok:
                        ctx.violation('save-load-is-a-fixpoint', f'{K}/chain/differs', f'{desc}: second save differs from the first')
                        return
    # ---- the id of the PAGE is no part of the contract ("a layout with the same line ids"): a layout's id is whatever built it (imageFilename
    # of a PAGE XML, the file stem parse_folder passes, a path written by another tool, None for PageLayout()).  Every pair (id of the saving
    # layout, id of the loading layout) x both save variants; the loading layout holds the same line ids, pre-filled with other data.
    page_ids = PAGE_IDS if case.get('pids', 'all') == 'all' else PAGE_IDS[1:3]
    if n:
        for sid in page_ids:
            src = make_page(variants, page_id=sid)
            src.save_logits(path)
            with open(path, 'rb') as f:
                pblobs = {'path': f.read(), 'bytes': src.save_logits_bytes()}
            os.remove(path)
            ctx.executed(2)
            for how, blob in pblobs.items():
                for tid in page_ids:
                    tgt = make_page(None, ids=ids, fill=False, page_id=tid)
                    for line in tgt.lines_iterator():
                        line.logits, line.characters, line.logit_coords = mat(0), ['x', '​'], [0, 1]
                    if how == 'path':
                        with open(path, 'wb') as f:
                            f.write(blob)
                        tgt.load_logits(path)
                        os.remove(path)
                    else:
                        tgt.load_logits(blob)
                    ctx.executed()
                    rel = 'same' if sid == tid else ('none' if sid is None or tid is None else 'other')
                    for line in tgt.lines_iterator():
                        M, chars, win = model[line.id]
                        if not same_sparse(line.logits, M) or list(line.characters or []) != chars or list(line.logit_coords or []) != win:
                            ctx.violation('restores-identical-matrix', f'{K}/load/page-id-{rel}/line-not-restored/{how}',
                                          f'{desc0}, saved via {how} from a layout with page id {sid!r}, loaded into a layout with the same line ids and '
                                          f'page id {tid!r}: line {line.id} holds logits {None if line.logits is None else line.logits.toarray().tolist()}, '
                                          f'characters {line.characters}, window {line.logit_coords}; saved were {M.toarray().tolist()}, {chars}, {win}')
                            return
                    if rel == 'other':
                        ctx.tag('loaded-into-layout-with-another-page-id')
    if n >= 2:
        ctx.nontrivial(tuple(variants), 'multi-line-pages')
    if n > 9:
        ctx.tag('more-than-nine-lines')
    ctx.outcome((n, tuple(v[0] for v in variants)))
    # ---- missing components
    for li in range(n):
        for removed in (('logits',), ('characters',), ('logit_coords',), ('logits', 'characters'), ('characters', 'logit_coords'),
                        ('logits', 'logit_coords')):
            for ok_flag in (False, True):
                p2 = make_page(variants)
                line = list(p2.lines_iterator())[li]
                for attr in removed:
                    setattr(line, attr, None)
                desc = f'{desc0} with {removed} of line {line.id} removed, missing_line_logits_ok={ok_flag}'
                for how in ('path', 'bytes'):
                    raised = False
                    if os.path.exists(path):
                        os.remove(path)
                    try:
                        if how == 'path':
                            p2.save_logits(path, missing_line_logits_ok=ok_flag)
                        else:
                            p2.save_logits_bytes(missing_line_logits_ok=ok_flag)
                    except Exception:
                        raised = True
                    ctx.executed()
                    wrote = os.path.exists(path)
                    if wrote:
                        os.remove(path)
                    if not ok_flag and not raised:
                        ctx.violation('missing-component-reported', f'{K}/save/missing-component-saved-silently',
                                      f'{desc}: {how} save did not report the missing component')
                        return
                    if not ok_flag and how == 'path' and wrote:
                        ctx.violation('missing-component-reported', f'{K}/save/file-written-despite-error', desc)
                        return
                    if ok_flag and raised:
                        ctx.violation('missing-component-reported', f'{K}/save/raises-although-allowed', desc)
                        return
                if ok_flag:
                    # a file saved with incomplete lines restores exactly what was saved - also into a layout that still holds older results
                    blob = p2.save_logits_bytes(missing_line_logits_ok=True)
                    tgt = make_page(variants)            # the same ids, every line with its full (older) triple
                    tgt.load_logits(blob)
                    ctx.executed(2)
                    for src, dst in zip(p2.lines_iterator(), tgt.lines_iterator()):
                        same_m = (src.logits is None and dst.logits is None) or (src.logits is not None and dst.logits is not None and same_sparse(dst.logits, src.logits))
                        same_c = dst.characters == src.characters
                        same_w = (dst.logit_coords is None and src.logit_coords is None) or \
                            (dst.logit_coords is not None and src.logit_coords is not None and list(dst.logit_coords) == list(src.logit_coords))
                        if not (same_m and same_c and same_w):
                            ctx.violation('restores-identical-matrix', f'{K}/load/incomplete-line-not-restored-as-saved',
                                          f'{desc}: after loading the file into a layout holding older results, line {dst.id} has logits '
                                          f'{"None" if dst.logits is None else "present"}, characters {dst.characters}, window {dst.logit_coords}; saved were '
                                          f'{"None" if src.logits is None else "present"}, {src.characters}, {src.logit_coords}')
                            return
                ctx.tag('missing-component-cases')


def check_e2e(case, ctx):
    from pero_ocr.core.layout import PageLayout, RegionLayout, TextLine
    from pero_ocr.document_ocr.page_parser import PageDecoder
    from pero_ocr.decoding.decoders import GreedyDecoder, CTCPrefixLogRawNumpyDecoder, BLANK_SYMBOL
    from scipy import sparse
    texts = case['e2e']
    chars = ['a', 'b', ' ', '​']
    page = PageLayout(id='p.jpg', page_size=(100, 300))
    reg = RegionLayout('r1', np.asarray([[0, 0], [300, 0], [300, 100], [0, 100]]))
    for k, t in enumerate(texts):
        rows = [3, 3]
        for ch in t:
            rows += [chars.index(ch), 3]
        rows += [3, 3]
        M = np.zeros((len(rows), 4))
        for i, s in enumerate(rows):
            M[i, s] = 6.0 + 0.01 * i
            M[i, (s + 1) % 4] = -1.0 - 0.01 * i
        # (every second page uses line ids of the form other tools and ALTO-derived files use: 'id_0001')
        reg.lines.append(TextLine(id=(f'id_{k:04d}' if len(texts[0]) % 2 else f'r1-l{k}'), baseline=np.asarray([[10, 30 + 40 * k], [250, 30 + 40 * k]]),
                                  polygon=np.asarray([[10, 10 + 40 * k], [250, 10 + 40 * k], [250, 40 + 40 * k], [10, 40 + 40 * k]]),
                                  heights=[20, 10], logits=sparse.csc_matrix(M), characters=list(chars), logit_coords=[2, len(rows) - 2],
                                  index=(case['index'][k] if 'index' in case else None)))
    page.regions.append(reg)
    # TextLine.index (PAGE XML attribute 'index'): None for lines made by an engine, the position for lines imported from PAGE XML - and whatever
    # the import gave them once lines were sorted / regions merged / a line inserted afterwards.  The order of a layout is that of its lists.
    exported = [i if v is None else v for i, v in enumerate(case.get('index', []))]
    ctx.state(('e2e', tuple(texts)) + ((tuple(case['index']),) if 'index' in case else ()))
    letters = chars[:-1] + [BLANK_SYMBOL]
    decs = {'greedy': lambda: GreedyDecoder(letters), 'beam': lambda: CTCPrefixLogRawNumpyDecoder(letters, 4)}
    for name, mk in decs.items():
        orig = copy.deepcopy(page)
        PageDecoder(mk()).process_page(orig)
        xml = orig.to_pagexml_string()
        blob = orig.save_logits_bytes()
        alto1 = orig.to_altoxml_string()
        rebuilt = PageLayout()
        rebuilt.from_pagexml_string(xml)
        rebuilt.load_logits(blob)
        rebuilt_ids = [l.id for l in rebuilt.lines_iterator()]
        by_id = {l.id: l for l in rebuilt.lines_iterator()}
        same_id_set = sorted(rebuilt_ids) == sorted(l.id for l in orig.lines_iterator()) and len(by_id) == len(rebuilt_ids)
        # (lines are associated by id, as load_logits does; the ORDER of the rebuilt layout is judged by what it exports, below)
        rebuilt_in_orig_order = [by_id[l.id] for l in orig.lines_iterator()] if same_id_set else list(rebuilt.lines_iterator())
        saved_text = [l.transcription for l in rebuilt_in_orig_order]
        for lo, lr in zip(orig.lines_iterator(), rebuilt_in_orig_order):
            if lr.id != lo.id or lr.logits is None or not same_sparse(lr.logits, lo.logits) or list(lr.characters or []) != list(lo.characters) or \
                    list(lr.logit_coords or []) != list(lo.logit_coords):
                ctx.violation('rebuilt-layout-redecodes-identically', f'{ID}/e2e/rebuilt-layout-lacks-the-saved-logits/{name}',
                              f'lines {texts}, decoder {name}: line {lo.id!r} of the original comes back from PAGE XML + logits file as {lr.id!r} with logits '
                              f'{"absent" if lr.logits is None else "present"}, characters {lr.characters}, window {lr.logit_coords}')
                return
        desc = f'lines {texts}, decoder {name}' + (f', index attributes of the lines {case["index"]}' if 'index' in case else '')
        alto2 = []

        def consumers():
            PageDecoder(mk()).process_page(rebuilt)
            alto2.append(rebuilt.to_altoxml_string())
        # the dense matrices of all lines of the rebuilt layout are kept by the caller while the layout is decoded and exported
        if not check_held_results([(lr, lo.logits) for lo, lr in zip(orig.lines_iterator(), rebuilt_in_orig_order)], ctx, ID,
                                  f'{desc}, layout rebuilt from PAGE XML + logits, then decoded and exported to ALTO', between=consumers):
            return
        alto2 = alto2[0]
        ctx.executed(8)
        t1 = [l.transcription for l in orig.lines_iterator()]
        t2 = [l.transcription for l in rebuilt_in_orig_order]
        if t1 != t2 or saved_text != t1:
            ctx.violation('rebuilt-layout-redecodes-identically', f'{ID}/e2e/redecoding-differs/{name}',
                          f'{desc}: original {t1}, stored in PAGE XML {saved_text}, re-decoded from saved artefacts {t2}')
            return
        w1 = re.findall(r'CONTENT="([^"]*)"', alto1)
        w2 = re.findall(r'CONTENT="([^"]*)"', alto2)
        if w1 != w2:
            reordered = same_id_set and rebuilt_ids != [l.id for l in orig.lines_iterator()] and sorted(w1) == sorted(w2)
            ctx.violation('rebuilt-layout-exports-same-alto', f'{ID}/e2e/alto-differs/{"lines-in-another-order/" if reordered else ""}{name}',
                          f'{desc}: ALTO words of the original {w1}, of the layout rebuilt from its PAGE XML + logits {w2}; line ids in the original '
                          f'{[l.id for l in orig.lines_iterator()]}, in the rebuilt layout {rebuilt_ids}')
            return
        if 'index' in case and any(b < a for a, b in zip(exported, exported[1:])) and len(set(t1)) == len(t1):
            ctx.tag('line-index-attributes-disagree-with-the-line-order')
        if [w for t in t1 for w in t.split()] != w1:
            ctx.violation('rebuilt-layout-exports-same-alto', f'{ID}/e2e/alto-words-not-the-transcription', f'{desc}: {t1} vs {w1}')
            return
        # the ALTO export with a confidence threshold (min_line_confidence): the original carries the page parser's line confidences at full
        # precision, PAGE XML stores them with three decimals - the lines that pass the threshold must be the same for both
        from pero_ocr.document_ocr.page_parser import PageParser
        conf_page = copy.deepcopy(orig)
        for l in conf_page.lines_iterator():
            l.transcription_confidence = float(PageParser.compute_line_confidence(l))
        cxml, cblob = conf_page.to_pagexml_string(), conf_page.save_logits_bytes()
        cs = [l.transcription_confidence for l in conf_page.lines_iterator()]
        probe = copy.deepcopy(conf_page)
        probe.to_altoxml_string()
        ms = [l.transcription_confidence for l in probe.lines_iterator()]          # what the export itself estimates
        grid = sorted({0.5} | {v for c in cs + ms if c is not None for v in (c, round(c, 3))}) if name == 'greedy' else []
        for thr in grid:
            a = copy.deepcopy(conf_page)
            b = PageLayout()
            b.from_pagexml_string(cxml)
            b.load_logits(cblob)
            wa = re.findall(r'CONTENT="([^"]*)"', a.to_altoxml_string(min_line_confidence=thr))
            wb = re.findall(r'CONTENT="([^"]*)"', b.to_altoxml_string(min_line_confidence=thr))
            ctx.executed(2)
            if wa != wb:
                ctx.violation('rebuilt-layout-exports-same-alto', f'{ID}/e2e/alto-differs-under-a-confidence-threshold/{name}',
                              f'{desc}: line confidences {cs} (PAGE XML stores three decimals), ALTO export with min_line_confidence={thr!r}: '
                              f'original exports {wa}, layout rebuilt from PAGE XML + logits exports {wb}')
                return
            if 0 < len(wa) < len(w1):
                ctx.tag('confidence-threshold-drops-some-lines')
        # history: the saved logits are loaded into a layout object that has ALREADY been decoded and exported with other logits on the
        # same line ids (a second engine's, here: the lines' matrices swapped); every consumer must then see the loaded ones
        if len(texts) == 2 and texts[0] != texts[1]:
            used = copy.deepcopy(page)
            la, lb = list(used.lines_iterator())
            la.logits, lb.logits = lb.logits, la.logits
            la.logit_coords, lb.logit_coords = lb.logit_coords, la.logit_coords
            PageDecoder(mk()).process_page(used)
            used.to_altoxml_string()
            swapped = [l.transcription for l in used.lines_iterator()]
            used.load_logits(blob)
            PageDecoder(mk()).process_page(used)
            alto3 = used.to_altoxml_string()
            ctx.executed(5)
            t3 = [l.transcription for l in used.lines_iterator()]
            w3 = re.findall(r'CONTENT="([^"]*)"', alto3)
            if t3 != t1 or w3 != w1:
                ctx.violation('rebuilt-layout-redecodes-identically', f'{ID}/e2e/logits-loaded-into-a-used-layout-are-not-used/{name}',
                              f'{desc}: a layout decoded to {swapped} with other logits, then load_logits() of the saved ones: re-decoded {t3} '
                              f'(ALTO words {w3}), expected {t1}')
                return
            if swapped != t1:
                ctx.tag('logits-loaded-into-a-used-layout')
        ctx.outcome(('e2e', tuple(t1)))
        if t1 == [' '.join(t.split()) if False else t for t in texts]:
            ctx.tag('e2e-decoded-the-painted-text')
    ctx.nontrivial(('e2e', tuple(texts)), 'end-to-end-pages')


PARTIAL_TEXTS = ['ab', 'b a', 'a', '']
INDEX_TEXTS = ['ab', 'b a', 'a']


def painted_page(texts, chars):
    """a one-region page whose k-th line carries CTC-like logits that decode to texts[k]"""
    from pero_ocr.core.layout import PageLayout, RegionLayout, TextLine
    from scipy import sparse
    page = PageLayout(id='p.jpg', page_size=(40 * len(texts) + 20, 300))
    reg = RegionLayout('r1', np.asarray([[0, 0], [300, 0], [300, 40 * len(texts) + 20], [0, 40 * len(texts) + 20]]))
    for k, t in enumerate(texts):
        rows = [3, 3]
        for ch in t:
            rows += [chars.index(ch), 3]
        rows += [3, 3]
        M = np.zeros((len(rows), 4))
        for i, s in enumerate(rows):
            M[i, s] = 6.0 + 0.01 * i
            M[i, (s + 1) % 4] = -1.0 - 0.01 * i
        reg.lines.append(TextLine(id=f'r1-l{k:03d}', baseline=np.asarray([[10, 30 + 40 * k], [250, 30 + 40 * k]]),
                                  polygon=np.asarray([[10, 10 + 40 * k], [250, 10 + 40 * k], [250, 40 + 40 * k], [10, 40 + 40 * k]]),
                                  heights=[20, 10], logits=sparse.csc_matrix(M), characters=list(chars), logit_coords=[2, len(rows) - 2]))
    page.regions.append(reg)
    return page


def check_partial(case, ctx):
    """partial files ("subset ... of line ids"): the layout rebuilt from the PAGE XML gets the logits of SOME of its lines only - the file was
    saved from a layout holding a subset of the lines, or with missing_line_logits_ok=True from one in which some lines have no logits.  Every
    non-empty set of absent lines x both ways x PAGE XML with / without the stored transcriptions x decoder.  Re-decoding the rebuilt layout:
    every line that got its logits back re-decodes to the original's transcription; a line absent from the file is left as it was."""
    from pero_ocr.core.layout import PageLayout
    from pero_ocr.document_ocr.page_parser import PageDecoder
    from pero_ocr.decoding.decoders import GreedyDecoder, CTCPrefixLogRawNumpyDecoder, BLANK_SYMBOL
    texts = [PARTIAL_TEXTS[i] for i in case['partial']]
    n = len(texts)
    chars = ['a', 'b', ' ', '​']
    page = painted_page(texts, chars)
    ctx.state(('partial', tuple(texts)))
    letters = chars[:-1] + [BLANK_SYMBOL]
    decs = {'greedy': lambda: GreedyDecoder(letters), 'beam': lambda: CTCPrefixLogRawNumpyDecoder(letters, 4)}
    for name in case.get('decoders', ['greedy', 'beam']):
        mk = decs[name]
        orig = copy.deepcopy(page)
        PageDecoder(mk()).process_page(orig)
        ctx.executed()
        t1 = [l.transcription for l in orig.lines_iterator()]
        ids = [l.id for l in orig.lines_iterator()]
        xml_with = orig.to_pagexml_string()
        bare = copy.deepcopy(orig)
        for l in bare.lines_iterator():
            l.transcription = None
        xmls = {'with-transcriptions': xml_with, 'layout-only': bare.to_pagexml_string()}
        for r in range(1, n + 1):
            for absent in itertools.combinations(range(n), r):
                for how in ('file-of-a-layout-with-fewer-lines', 'lines-without-logits-saved-as-allowed'):
                    src = copy.deepcopy(orig)
                    if how == 'file-of-a-layout-with-fewer-lines':
                        for reg in src.regions:
                            reg.lines = [l for l in reg.lines if ids.index(l.id) not in absent]
                        blob = src.save_logits_bytes()
                    else:
                        for k, l in enumerate(src.lines_iterator()):
                            if k in absent:
                                l.logits = None
                        blob = src.save_logits_bytes(missing_line_logits_ok=True)
                    for xname, xml in xmls.items():
                        rebuilt = PageLayout()
                        rebuilt.from_pagexml_string(xml)
                        before = [l.transcription for l in rebuilt.lines_iterator()]
                        rebuilt.load_logits(blob)
                        got_logits = [l.logits is not None for l in rebuilt.lines_iterator()]
                        PageDecoder(mk()).process_page(rebuilt)
                        ctx.executed(4)
                        t2 = [l.transcription for l in rebuilt.lines_iterator()]
                        desc = (f'lines {texts}, decoder {name}: PAGE XML ({xname}) + a logits file lacking the lines {[ids[k] for k in absent]} '
                                f'({how}): original transcriptions {t1}, in the rebuilt layout before decoding {before}, after re-decoding {t2}')
                        if [l.id for l in rebuilt.lines_iterator()] != ids or got_logits != [k not in absent for k in range(n)]:
                            ctx.violation('restores-identical-matrix', f'{ID}/e2e/partial-file/wrong-lines-got-logits/{how}',
                                          f'{desc}; lines holding logits after load_logits: {got_logits}')
                            return
                        for k in range(n):
                            if k not in absent and t2[k] != t1[k]:
                                ctx.violation('rebuilt-layout-redecodes-identically', f'{ID}/e2e/partial-file/line-with-logits-redecodes-differently/{how}',
                                              f'{desc}; line {ids[k]} has its logits but is {t2[k]!r} instead of {t1[k]!r}')
                                return
                        for k in absent:
                            if t2[k] != before[k]:
                                ctx.violation('absent-lines-untouched', f'{ID}/e2e/partial-file/line-without-logits-got-another-transcription/{how}',
                                              f'{desc}; line {ids[k]} is absent from the file and was {before[k]!r}, now {t2[k]!r}')
                                return
                        later = [j for j in range(n) if j not in absent and j > min(absent)]
                        if later and any(t1[j] != t1[j - 1] for j in later):
                            ctx.tag('line-without-logits-before-lines-with-logits')
                        if xname == 'layout-only' and any(k not in absent and t2[k] for k in range(n)):
                            ctx.tag('partial-file-into-layout-only-xml')
        ctx.outcome(('partial', tuple(t1)))
    if len(set(texts)) > 1:
        ctx.nontrivial(('partial', tuple(texts)), 'partial-file-pages')


MARGINS = [1.0, 0.4, 2.0008, 3.3, 0.05]


def check_filter(case, ctx):
    """the page-level confidence filter applied to a layout rebuilt from PAGE XML + logits keeps the same lines"""
    import configparser
    import torch
    from scipy import sparse
    from pero_ocr.core.layout import PageLayout, RegionLayout, TextLine
    from pero_ocr.document_ocr.page_parser import PageParser
    chars = ['a', 'b', '​']
    page = PageLayout(id='p.jpg', page_size=(100, 300))
    reg = RegionLayout('r1', np.asarray([[0, 0], [300, 0], [300, 100], [0, 100]]))
    for k, mi in enumerate(case['filter']):
        m = MARGINS[mi]
        M = np.asarray([[m, 0.01 * (k + 1), -3.0], [-3.0, -2.5, m + 0.5], [0.02, m, -3.0], [-3.0, -3.5, 2.0]])
        reg.lines.append(TextLine(id=f'r1-l{k}', baseline=np.asarray([[10, 20 + 25 * k], [250, 20 + 25 * k]]),
                                  polygon=np.asarray([[10, 5 + 25 * k], [250, 5 + 25 * k], [250, 24 + 25 * k], [10, 24 + 25 * k]]),
                                  heights=[12, 4], logits=sparse.csc_matrix(M), characters=list(chars), logit_coords=[0, 4], transcription='ab'))
    page.regions.append(reg)
    ctx.state(('filter', tuple(case['filter'])))
    confs = [float(PageParser.compute_line_confidence(l)) for l in page.lines_iterator()]
    ths = sorted({round((c + float(f'{c:.3f}')) / 2, 7) for c in confs if abs(c - float(f'{c:.3f}')) > 2e-5} | {0.5})
    for t in ths:
        cfg = configparser.ConfigParser()
        cfg['PAGE_PARSER'] = {'RUN_LAYOUT_PARSER': 'no', 'RUN_LINE_CROPPER': 'no', 'RUN_OCR': 'no', 'RUN_DECODER': 'no',
                              'FILTER_CONFIDENT_LINES_THRESHOLD': repr(t)}
        parser = PageParser(cfg, device=torch.device('cpu'))
        first = parser.process_page(None, copy.deepcopy(page))
        xml, blob = first.to_pagexml_string(), first.save_logits_bytes()
        rebuilt = PageLayout()
        rebuilt.from_pagexml_string(xml)
        rebuilt.load_logits(blob)
        second = parser.process_page(None, rebuilt)
        ctx.executed(5)
        a = [(l.id, l.transcription) for l in first.lines_iterator()]
        b = [(l.id, l.transcription) for l in second.lines_iterator()]
        if a != b:
            ctx.violation('rebuilt-layout-redecodes-identically', f'{ID}/e2e/confidence-filter-differs-on-rebuilt-layout',
                          f'line confidences {confs}, FILTER_CONFIDENT_LINES_THRESHOLD={t}: lines kept from the original {a}, from the layout rebuilt '
                          f'from its PAGE XML + logits {b}')
            return
        if 0 < len(a) < len(confs):
            ctx.nontrivial(('filter', tuple(case['filter']), t), 'filter-splits-the-page')
    ctx.outcome(('filter', len(ths)))


def check_case(case, ctx):
    if 'filter' in case:
        return check_filter(case, ctx)
    if 'partial' in case:
        return check_partial(case, ctx)
    if 'e2e' in case:
        check_e2e(case, ctx)
    else:
        check_pages(case, ctx)


def describe(tier):
    return {
        'rule': 'all pages of 0..3 lines over the 30-variant line alphabet (3 lines: 6 x 6 x 15|30); for each page both save variants + two '
                'legacy formats, every target id-subset (incl. an unknown id) with pre-filled lines, the save/load chain, and every removal '
                'of 1-2 components x missing_line_logits_ok; end-to-end pages: 39 x 2 painted texts x 2 decoders. state = distinct page. '
                'Non-trivial: pages with >= 2 lines (id association matters) and end-to-end pages. Every page additionally saved from / loaded into layouts '
                'over every pair of page ids (4 x 4; 3-line pages quick: 2 x 2) x both save variants; partial-file end-to-end pages: all pages of 2..3 (thorough: 4) '
                'lines over 4 painted texts x every non-empty set of absent lines x 2 ways of producing the partial file x PAGE XML with / without '
                'transcriptions x 2 decoders. Every saved / fully restored layout: all dense results of all lines kept across the later reconstructions, then one of them '
                'overwritten by the caller. End-to-end pages of 3 distinct lines x every index-attribute assignment over the line_index_alphabet (4^3; thorough 5^3).',
        'bounds': BOUNDS[tier],
        'alphabets': {'matrices': MATS, 'charsets': CHARSETS, 'windows': WINDOWS, 'page_ids': PAGE_IDS, 'partial_file_texts': PARTIAL_TEXTS, 'line_index_texts': INDEX_TEXTS},
        'assumptions': ['no stored entry is exactly 0.0 (precondition of the format)', 'line ids never equal the table keys'],
        'min_nontrivial': 100, 'required_tags': ['confidence-threshold-drops-some-lines', 'multi-line-pages', 'missing-component-cases', 'end-to-end-pages', 'filter-splits-the-page', 'logits-loaded-into-a-used-layout', 'more-than-nine-lines', 'explicit-zeros-and-other-sparse-formats',
                                               'loaded-into-layout-with-another-page-id', 'partial-file-pages', 'line-without-logits-before-lines-with-logits',
                                               'partial-file-into-layout-only-xml', 'dense-results-kept-across-later-reconstructions',
                                               'dense-results-of-lines-with-equal-alphabet-size-kept', 'line-index-attributes-disagree-with-the-line-order'],
    }
