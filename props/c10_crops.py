"""C10 - Line crops sample the band around the baseline, on every code path.

Oracle by observation: the page is a float32 COORDINATE IMAGE (img[y, x] = (x, y, 1)).  Bilinear resampling of a linear
function is exact (up to cv2.remap's 1/32 px coordinate quantisation), so the crop IS the source coordinate of every output
pixel, and the geometric statement is checked on the output of the whole pipeline (get_crop_inputs + fast_remap + crop).

Space (configuration lattice): baselines on an integer lattice: start in {inside, near the top-left corner, partly outside},
dx in 20..120, slopes within +-56 deg, 2..5 points with mid-point offsets in {0,+-1,+-2} px, heights, interpolation order
{0 (cubic), 1, 2}, line height, scale; plus the degenerate set (vertical, single pixel, coincident points, zero heights), each baseline of it held
in an array and in every kind of plain python sequence.

Space (histories): one cropper object along every sequence of length <= depth of public events (crop, get_crop_inputs with another target height,
line_height / scale / poly set to another value, a degenerate line cropped in between); the crop that follows is compared with a cropper constructed with the configuration in force.
"""
import itertools
import math

import numpy as np

ID = 'C10'

MANIFEST = dict(
    technique='explicit-state enumeration of a baseline/heights/interpolation/line-height/scale lattice on the real cropper over a coordinate image (the crop is the sampled source coordinate of every output pixel); geometric oracle + fast-vs-general-path and shift differentials',
    text='Bounded exhaustive: every baseline of the lattice (3 start positions x dx 20..120 x 9 slopes x 6 point configurations) x heights x interpolation order {0,1,2} x line height x scale (about 1.3e5 crops quick, 1.1e6 thorough). For each crop: exact height, width = length x target height / scaled line height, first/last column at the first/last baseline point, uniform column spacing, rows perpendicular and running linearly from -ascender to +descender, never the blank fallback; the partly-outside (general) path must agree with the same line shifted inside a larger canvas (fast path); degenerate baselines must give a crop or a blank image of the configured height, never an error (crop and LineCropper). Added sub-sweeps: baselines held as unsigned / int32 / float32 arrays, numpy zero heights, every line cropped twice, a long-lived cropper shared by all cases of a worker (same crop as a fresh one, earlier crops untouched), LineCropper on a shifted canvas, densely sampled baselines of 33-160 points, and a geometric decision whether blank samples of an inside line are a violation. Lines whose band touches the page by exactly one row / column / corner sample (fast vs general path), requested a second time with the same baseline array moved in place. Baselines held in plain python sequences (list of lists / list of tuples / tuple of tuples, heights as list / tuple): every degenerate baseline x interpolation order x container through crop and LineCropper (never an error, same crop or same blank image as for an array - so the blank fallback is reached with every kind of argument), and ordinary lines of the lattice. One long-lived cropper along every history of length <= 2 (thorough: 3) over the 12 public events {crop, get_crop_inputs with target height 16/32/64, line_height := 16/32/64, scale := 0.8/1.5, poly := 0/1/2} x 3 lines x 6 initial configurations: the crop that follows has the height configured now and equals the crop of a cropper freshly constructed with the configuration in force; every requested grid has the requested height. Wave 11: the history alphabet also holds the event -another line of the degenerate set (zero heights / single pixel / coincident points) is cropped in between- (15 events; that crop is a crop or the blank image of the configured height, never an error, and the crop that follows equals that of a fresh cropper); one sampling grid of get_crop_inputs is passed to fast_remap for a second raster (same cut as the first), and crop(..., return_forward_mapping=True) returns the same crop together with a mapping that is where the crop was sampled (lines inside and partly outside the page).',
    note='Integer baseline coordinates (the cropper truncates them); mild curvature only (tolerance grows with the distance of the points from their chord); tolerances: 0.3 px across, 1.5 px along the baseline for straight lines.',
    ref='3/C10')

IMG_H, IMG_W = 640, 520
_SHARED = {}
_HELD = {}
STARTS = [(150, 320), (3, 8), (-15, 40)]
SLOPES = [0.0, 0.25, -0.25, 0.5, -0.5, 1.0, -1.0, 1.5, -1.5]
POINTCFG = [(2, 0), (3, 0), (3, 2), (4, 0), (4, -1), (5, 1)]        # (number of points, perpendicular offset of inner points)
HEIGHTS = [(12, 4), (20, 10), (5, 5), (30.5, 8.25)]
POLYS = [0, 1, 2]
LINE_H = [16, 32, 48, 64]
SCALES = [0.8, 1.0, 1.5]
BOUNDS = {
    'quick': dict(dx=list(range(20, 121, 3)), heights=[0, 3], line_h=[16, 48], scales=[1.0, 1.5], reconf_depth=[2]),
    'thorough': dict(dx=list(range(20, 121)), heights=[0, 1, 2, 3], line_h=[16, 32, 48, 64], scales=[0.8, 1.0, 1.5], reconf_depth=[3]),
}
BOUNDS['replay'] = BOUNDS['quick']
DEGENERATE = [
    ('vertical', [[50, 40], [50, 120]], (12, 4)),
    ('vertical-up', [[50, 120], [50, 40]], (12, 4)),
    ('single-pixel', [[50, 40], [50, 40]], (12, 4)),
    ('one-px-long', [[50, 40], [51, 40]], (12, 4)),
    ('three-px-long', [[50, 40], [53, 41]], (12, 4)),
    ('coincident-points', [[50, 40], [50, 40], [90, 40], [90, 40]], (12, 4)),
    ('zero-heights', [[50, 40], [150, 40]], (0, 0)),
    ('zero-ascender', [[50, 40], [150, 40]], (0, 6)),
    ('zero-heights-numpy', [[50, 40], [150, 40]], 'np0'),
    ('right-to-left', [[150, 40], [50, 45]], (12, 4)),
    ('outside-the-page', [[-200, -50], [-100, -50]], (12, 4)),
]
_IMG = {}


def coord_image(h=IMG_H, w=IMG_W, ox=0, oy=0, ch=IMG_H, cw=IMG_W):
    """canvas ch x cw whose region [oy:oy+h, ox:ox+w] is the coordinate image (x, y, 1) of the page, 0 elsewhere"""
    key = (h, w, ox, oy, ch, cw)
    if key not in _IMG:
        img = np.zeros((ch, cw, 3), dtype=np.float32)
        ys, xs = np.mgrid[0:h, 0:w]
        img[oy:oy + h, ox:ox + w, 0] = xs
        img[oy:oy + h, ox:ox + w, 1] = ys
        img[oy:oy + h, ox:ox + w, 2] = 1
        _IMG[key] = img
    return _IMG[key]


def setup(tier):
    pass


def shards(tier):
    out = []
    for si in range(len(STARTS)):
        for poly in POLYS:
            for pc in range(len(POINTCFG)):
                out.append({'start': si, 'poly': poly, 'pc': pc})
    out.append({'degenerate': True})
    out.append({'edge': True})
    for poly in POLYS:
        out.append({'dense': True, 'poly': poly})
    for poly in POLYS:
        for lh in RECONF_LH0:
            out.append({'reconf': True, 'poly': poly, 'lh': lh})
    return out


DENSE_N = [33, 64, 65, 66, 70, 90, 129, 160]          # densely sampled baselines (one point every second pixel), as CNN layout engines produce


# what a caller may hold a baseline in: crop() / get_crop_inputs() take any array-like (they start with np.asarray), PAGE / ALTO importers and the
# layout engines deliver arrays, scripts and JSON round trips deliver plain sequences
CONTAINERS = ['ndarray', 'list-of-lists', 'list-of-tuples', 'tuple-of-tuples']


def held_as(pts, kind):
    if kind == 'ndarray':
        return np.asarray(pts)
    if kind == 'list-of-lists':
        return [[int(c) for c in p] for p in pts]
    if kind == 'list-of-tuples':
        return [tuple(int(c) for c in p) for p in pts]
    return tuple(tuple(int(c) for c in p) for p in pts)


def maxdiff(a, b):
    """largest absolute difference of two arrays of equal shape; NaN if either holds a NaN (compare with `not (d <= tol)`)"""
    if a.size == 0:
        return 0.0
    return float(np.abs(np.asarray(a, dtype=np.float64) - np.asarray(b, dtype=np.float64)).max())


# ---- one long-lived cropper along a HISTORY of public events (sub-sweep 'reconf'): every history of length 1..depth over this alphabet, then the
# line is cropped and must be the crop a cropper freshly constructed with the configuration in force gives
RECONF_LH0 = [16, 48]
RECONF_LINES = [(0, 59, 1, 0), (0, 80, 4, 4), (2, 62, 1, 1)]        # (start, dx, slope index, point configuration): straight / curved 4 points / partly outside
RECONF_EVENTS = [('crop',)] + [('grid', h) for h in (16, 32, 64)] + [('lh', h) for h in (16, 32, 64)] + [('scale', s) for s in (0.8, 1.5)] + \
                [('poly', p) for p in (0, 1, 2)] + [('other', n) for n in ('zero-heights', 'single-pixel', 'coincident-points')]
# ('other', name): the cropper crops ANOTHER line in between - a line of the degenerate set (2 points with zero heights, 2 points on one pixel, 4
# points two by two coincident), as a page cropper meets them among ordinary lines; that crop is a crop or the blank image, never an error
RECONF_ATTR = {'lh': 'line_height', 'poly': 'poly', 'scale': 'scale'}
RECONF_KIND = {'grid': 'a-sampling-grid-of-another-height-was-requested', 'lh': 'line_height-was-changed', 'scale': 'scale-was-changed',
               'poly': 'interpolation-order-was-changed', 'crop': 'earlier-crops', 'other': 'a-degenerate-line-was-cropped'}


def baseline_points(start, dx, slope, pc, dense=None):
    n, off = POINTCFG[pc] if dense is None else (dense, 0)
    x0, y0 = STARTS[start]
    dy = int(round(dx * slope))
    pts = []
    L = math.hypot(dx, dy)
    nx, ny = -dy / L, dx / L
    for k in range(n):
        t = k / (n - 1)
        x, y = x0 + t * dx, y0 + t * dy
        if 0 < k < n - 1:
            s = off if k % 2 else -off
            x, y = x + nx * s, y + ny * s
        pts.append([int(round(x)), int(round(y))])
    return pts


def run_shard(shard, ctx, tier):
    from mc.core import guarded_check
    import sys
    mod = sys.modules[__name__]
    b = BOUNDS[tier]
    if shard.get('degenerate'):
        for di in range(len(DEGENERATE)):
            for poly in POLYS:
                for ci in range(len(CONTAINERS)):
                    guarded_check(mod, {'degenerate': di, 'poly': poly, 'as': ci}, ctx)
        return
    if shard.get('reconf'):
        for li in range(len(RECONF_LINES)):
            for depth in range(1, b['reconf_depth'][0] + 1):
                for hist in itertools.product(range(len(RECONF_EVENTS)), repeat=depth):
                    guarded_check(mod, {'reconf': list(hist), 'poly': shard['poly'], 'lh': shard['lh'], 'line': li}, ctx)
        return
    if shard.get('edge'):
        for ei in range(len(EDGE)):
            for poly in POLYS:
                for lh in (16, 48):
                    for d in (-1, 0, 1):
                        guarded_check(mod, {'edge': ei, 'poly': poly, 'lh': lh, 'd': d}, ctx)
        return
    if shard.get('dense'):
        for n in DENSE_N:
            for sl in (0, 3, 4):           # slopes 0 and +-0.5: with a point every second pixel the rounded points stay exactly collinear
                for lh in (16, 48):
                    guarded_check(mod, {'start': 0, 'poly': shard['poly'], 'pc': 0, 'dx': 2 * (n - 1), 'slope': sl, 'h': 0, 'lh': lh, 'scale': 1.0,
                                        'dense': n}, ctx)
        return
    for dx in b['dx']:
        for sl in range(len(SLOPES)):
            for hi in b['heights']:
                for lh in b['line_h']:
                    for sc in b['scales']:
                        guarded_check(mod, {'start': shard['start'], 'poly': shard['poly'], 'pc': shard['pc'], 'dx': dx, 'slope': sl,
                                            'h': hi, 'lh': lh, 'scale': sc}, ctx)


# lines whose band lies off the page except for ONE row / column of samples (d = 0), or just not / just two (d = -1 / +1); heights (12, 4), scale 1
EDGE = [('top-row-on-the-last-page-row', lambda d: [[100, IMG_H - 1 + 12 - d], [200, IMG_H - 1 + 12 - d]]),
        ('first-column-on-the-last-page-column', lambda d: [[IMG_W - 1 - d, 300], [IMG_W + 59 - d, 300]]),
        ('bottom-row-on-the-first-page-row', lambda d: [[100, -4 + d], [200, -4 + d]]),
        ('last-column-on-the-first-page-column', lambda d: [[-60 + d, 300], [d, 300]]),
        ('corner-sample-on-the-last-page-pixel', lambda d: [[IMG_W - 1 - d, IMG_H - 1 + 12 - d], [IMG_W + 59 - d, IMG_H - 1 + 12 - d]])]


def check_edge(case, ctx):
    """fast vs. general path at the page border: the crop from the page must equal the crop from the page embedded in a larger canvas; the
    second crop is requested with THE SAME baseline array object shifted in place (callers move lines that way)"""
    from pero_ocr.core.crop_engine import EngineLineCropper
    name, mk = EDGE[case['edge']]
    pts = mk(case['d'])
    lh, poly = case['lh'], case['poly']
    eng = EngineLineCropper(line_height=lh, poly=poly, scale=1.0)
    img = coord_image()
    ox, oy = 70, 50
    big = coord_image(IMG_H, IMG_W, ox, oy, IMG_H + 110, IMG_W + 140)
    b = np.asarray(pts, dtype=np.float64)
    hts = np.asarray([12.0, 4.0])
    desc = f'baseline {pts} ({name}, offset {case["d"]}), heights (12, 4), poly={poly}, line_height={lh}, scale=1'
    ctx.state(('edge', case['edge'], case['d'], lh, poly))
    crop = eng.crop(img, b, hts)
    b += np.asarray([ox, oy], dtype=np.float64)            # in place
    crop2 = eng.crop(big, b, hts)
    fresh = EngineLineCropper(line_height=lh, poly=poly, scale=1.0).crop(big, np.asarray(pts, dtype=np.float64) + np.asarray([ox, oy]), hts)
    ctx.executed(3)
    K = f'{ID}/poly{poly}'
    if crop2.shape != fresh.shape or not np.array_equal(crop2, fresh):
        ctx.violation('same-crop-on-every-call', f'{K}/baseline-array-moved-in-place-is-cropped-at-its-old-position',
                      f'{desc}: the baseline array was shifted in place by ({ox},{oy}) and cropped again by the same cropper: {crop2.shape}, a fresh '
                      f'cropper gives {fresh.shape}' + ('' if crop2.shape != fresh.shape else f' (max difference {float(np.abs(crop2 - fresh).max())})'))
        return
    if crop.shape[0] != lh or crop.shape != fresh.shape or not (maxdiff(crop, fresh) <= 0.2):
        worst = float(np.abs(crop.astype(np.float64) - fresh.astype(np.float64)).max()) if crop.shape == fresh.shape else None
        ctx.violation('same-pixels-on-fast-and-general-path', f'{K}/shifted-crop-differs/band-touching-the-page-border',
                      f'{desc}: the crop from the page has {int((crop[:, :, 2] > 0.5).sum())} samples with page content, the crop of the same line '
                      f'from the page embedded in a larger canvas {int((fresh[:, :, 2] > 0.5).sum())} (shapes {crop.shape} / {fresh.shape}, max difference {worst})')
        return
    n = int((fresh[:, :, 2] > 0.5).sum())
    ctx.outcome(('edge', case['edge'], case['d'], n > 0))
    if case['d'] == 0 and 0 < n <= max(fresh.shape[0], fresh.shape[1]):
        ctx.nontrivial(('edge', case['edge'], lh, poly), 'band-touching-the-page-by-one-row-or-column')
    ctx.tag('baseline-array-moved-in-place')


def check_degenerate(case, ctx):
    import configparser
    from pero_ocr.core.crop_engine import EngineLineCropper
    from pero_ocr.core.layout import PageLayout, RegionLayout, TextLine
    from pero_ocr.document_ocr.page_parser import LineCropper
    name, pts, heights = DEGENERATE[case['degenerate']]
    if isinstance(heights, str):
        heights = np.zeros(2, dtype=np.float64)          # zero heights as numpy values (ALTO import, guessed heights)
    poly = case['poly']
    kind = CONTAINERS[case.get('as', 0)]                # what the caller holds the baseline in
    seq = kind != 'ndarray'
    sfx = '/baseline-held-as-a-python-sequence' if seq else ''
    hts = tuple(heights) if kind == 'tuple-of-tuples' else list(heights)
    ctx.state(('deg', name, poly, kind))
    full_img = (coord_image()[:, :, :3] % 256).astype(np.uint8)
    fell_back = False
    for lh, img in ((16, full_img), (48, full_img), (48, full_img[:40].copy())):      # last: a page strip lower than the configured line height
        eng = EngineLineCropper(line_height=lh, poly=poly, scale=1)
        try:
            crop = eng.crop(img, held_as(pts, kind), hts)
        except Exception as e:  # noqa
            ctx.violation('degenerate-never-an-error', f'{ID}/degenerate/{name}/crop-raises/{type(e).__name__}{sfx}',
                          f'EngineLineCropper(poly={poly}, line_height={lh}).crop raised {type(e).__name__}: {e} for baseline {pts} (given as {kind}), '
                          f'heights {heights}')
            return
        finally:
            ctx.executed()
        if crop.ndim != 3 or crop.shape[0] != lh:
            ctx.violation('degenerate-blank-of-configured-height', f'{ID}/degenerate/{name}/wrong-height',
                          f'crop of degenerate baseline {pts} (given as {kind}, poly={poly}) has shape {crop.shape}, configured height {lh}')
            return
        if seq:
            # the same line held in an array: same crop (or the same blank image) - whether a line is cropped or replaced by the blank
            # image may not depend on what the caller keeps its points in
            try:
                ref = EngineLineCropper(line_height=lh, poly=poly, scale=1).crop(img, np.asarray(pts), list(heights))
            except Exception:  # noqa  -- reported by the case that holds the baseline in an array
                ref = None
            ctx.executed()
            if ref is not None and (ref.shape != crop.shape or not (maxdiff(ref, crop) <= 1)):
                ctx.violation('degenerate-blank-of-configured-height', f'{ID}/degenerate/{name}/crop-depends-on-what-holds-the-baseline',
                              f'baseline {pts}, heights {heights}, poly={poly}, line_height={lh}: given as {kind} the crop has shape {crop.shape}, '
                              f'given as an array {ref.shape}' + ('' if ref.shape != crop.shape else f' (max difference {maxdiff(ref, crop)})'))
                return
            if crop.shape[1] == 32 and not crop.any():
                fell_back = True
        cfg = configparser.ConfigParser()
        cfg['LINE_CROPPER'] = {'INTERP': str(poly), 'LINE_SCALE': '1', 'LINE_HEIGHT': str(lh)}
        lc = LineCropper(cfg['LINE_CROPPER'])
        page = PageLayout(id='p', page_size=img.shape[:2])
        reg = RegionLayout('r', np.zeros((4, 2)))
        reg.lines.append(TextLine(id='l', baseline=held_as(pts, kind), heights=hts))
        page.regions.append(reg)
        try:
            lc.process_page(img, page)
        except Exception as e:  # noqa
            ctx.violation('degenerate-never-an-error', f'{ID}/degenerate/{name}/LineCropper-raises/{type(e).__name__}{sfx}',
                          f'LineCropper(INTERP={poly}).process_page raised {type(e).__name__}: {e} for baseline {pts} (given as {kind}), heights {heights}')
            return
        finally:
            ctx.executed()
        c2 = reg.lines[0].crop
        if c2 is None or c2.shape[0] != lh:
            ctx.violation('degenerate-blank-of-configured-height', f'{ID}/degenerate/{name}/LineCropper-wrong-height',
                          f'{None if c2 is None else c2.shape} for configured height {lh}')
            return
    ctx.outcome(('deg', name, crop.shape[1]))
    ctx.nontrivial(('deg', name, poly), 'degenerate-baselines')
    if fell_back:
        ctx.nontrivial(('deg', name, poly, kind), 'blank-fallback-of-a-baseline-held-as-a-python-sequence')


def check_reconf(case, ctx):
    """history on ONE cropper object: crops, sampling grids of other heights (get_crop_inputs is public: the ALTO export asks for 16 rows) and
    changes of the public configuration attributes, crops of OTHER (degenerate) lines; the crop that follows must have the height configured NOW and equal the crop of a cropper
    constructed with the configuration in force (the statement is quantified over configurations, not over how a cropper came to have one)"""
    from pero_ocr.core.crop_engine import EngineLineCropper
    st, dx, sl, pc = RECONF_LINES[case['line']]
    pts = baseline_points(st, dx, SLOPES[sl], pc)
    h_up, h_down = HEIGHTS[0]
    cfg = {'lh': case['lh'], 'poly': case['poly'], 'scale': 1.0}
    events = [RECONF_EVENTS[i] for i in case['reconf']]
    ctx.state(('reconf', case['line'], case['lh'], case['poly'], tuple(case['reconf'])))
    img = coord_image()
    b = np.asarray(pts)

    def hts():
        return np.asarray([h_up, h_down], dtype=np.float64)

    def fresh():
        return EngineLineCropper(line_height=cfg['lh'], poly=cfg['poly'], scale=cfg['scale'])
    eng = fresh()
    told = []
    sampled = False              # the cropper has computed a sampling grid already
    reused = other_grid = after_blank = False
    last = 'crop'
    for ev in events:
        if ev[0] == 'other':
            _, opts, oh = next(d for d in DEGENERATE if d[0] == ev[1])
            told.append(f'crop of the {ev[1]} line {opts} with heights {oh}')
            try:
                oc = eng.crop(img, np.asarray(opts), np.asarray(oh, dtype=np.float64))
            except Exception as e:  # noqa
                ctx.violation('degenerate-never-an-error', f'{ID}/long-lived-cropper/degenerate/{ev[1]}/crop-raises/{type(e).__name__}',
                              f'cropper constructed with line_height={case["lh"]}, poly={case["poly"]}, scale=1.0; then ' + ', '.join(told)
                              + f': raised {type(e).__name__}: {e}')
                return
            finally:
                ctx.executed()
            if oc.ndim != 3 or oc.shape[0] != cfg['lh']:
                ctx.violation('degenerate-blank-of-configured-height', f'{ID}/long-lived-cropper/degenerate/{ev[1]}/wrong-height',
                              f'cropper constructed with line_height={case["lh"]}, poly={case["poly"]}, scale=1.0; then ' + ', '.join(told)
                              + f': shape {oc.shape}, configured height {cfg["lh"]}')
                return
            sampled = True
            last = 'other'
            if oc.shape[1] == 32 and not oc.any():
                after_blank = True
        elif ev[0] == 'crop':
            eng.crop(img, b, hts())
            ctx.executed()
            sampled = True
            told.append('crop')
        elif ev[0] == 'grid':
            g = eng.get_crop_inputs(b, hts(), ev[1])
            ref = fresh().get_crop_inputs(b, hts(), ev[1])
            ctx.executed(2)
            told.append(f'get_crop_inputs(target_height={ev[1]})')
            desc = f'baseline {pts}, heights {(h_up, h_down)}; cropper constructed with line_height={case["lh"]}, poly={case["poly"]}, scale=1.0; then ' + ', '.join(told)
            if g.shape[0] != ev[1]:
                ctx.violation('exact-height', f'{ID}/long-lived-cropper/get_crop_inputs/grid-has-not-the-requested-height',
                              f'{desc}: the grid has shape {g.shape}, {ev[1]} rows were requested')
                return
            if g.shape != ref.shape or not (maxdiff(g, ref) <= 1e-3):
                ctx.violation('same-crop-on-every-call', f'{ID}/long-lived-cropper/get_crop_inputs/grid-differs-from-a-fresh-cropper',
                              f'{desc}: grid {g.shape}, a cropper freshly constructed with this configuration gives {ref.shape}'
                              + ('' if g.shape != ref.shape else f' (max difference {maxdiff(g, ref)} px)'))
                return
            if ev[1] != cfg['lh']:
                other_grid = True
                last = 'grid'
            sampled = True
        else:
            changed = cfg[ev[0]] != ev[1]
            cfg[ev[0]] = ev[1]
            setattr(eng, RECONF_ATTR[ev[0]], ev[1])             # the public configuration attributes (LineCropper reads crop_engine.line_height, too)
            told.append(f'{RECONF_ATTR[ev[0]]} = {ev[1]}')
            if changed:
                last = ev[0]
                reused = reused or sampled
    crop = eng.crop(img, b, hts())
    ref = fresh().crop(img, b, hts())
    ctx.executed(2)
    desc = (f'baseline {pts}, heights {(h_up, h_down)}; cropper constructed with line_height={case["lh"]}, poly={case["poly"]}, scale=1.0; then '
            + ', '.join(told) + f'; then the line is cropped (configuration in force: line_height={cfg["lh"]}, poly={cfg["poly"]}, scale={cfg["scale"]})')
    kind = RECONF_KIND[last]
    if crop.ndim != 3 or crop.shape[0] != cfg['lh']:
        ctx.violation('exact-height', f'{ID}/long-lived-cropper/after-{kind}/crop-has-not-the-configured-height',
                      f'{desc}: the crop has shape {crop.shape}, configured height {cfg["lh"]}')
        return
    worst = None
    if crop.shape == ref.shape:
        # samples on the very border of the page blend page content with the constant outside it: there a coordinate that moved by round-off
        # changes the value by a lot - compared are the samples that both crops took from the page proper (all, for the lines inside the page)
        both = (crop[:, :, 2] > 0.999) & (ref[:, :, 2] > 0.999)
        nan = np.isnan(crop).any(axis=2) | np.isnan(ref).any(axis=2)
        sel = both | nan
        worst = maxdiff(crop[sel], ref[sel])
    if worst is None or not (worst <= 0.2) or abs(int(both.sum()) - int((ref[:, :, 2] > 0.999).sum())) > 2 * sum(ref.shape[:2]):
        ctx.violation('same-crop-on-every-call', f'{ID}/long-lived-cropper/after-{kind}/crop-differs-from-a-fresh-cropper',
                      f'{desc}: crop {crop.shape}, a cropper freshly constructed with the configuration in force gives {ref.shape}'
                      + ('' if worst is None else f' (max difference {worst} on the samples both took from the page, {int(both.sum())} of '
                                                  f'{int((ref[:, :, 2] > 0.999).sum())})'))
        return
    ctx.outcome(('reconf', crop.shape[0], crop.shape[1]))
    if reused:
        ctx.nontrivial(('reconf', case['line'], case['lh'], case['poly'], tuple(case['reconf'])), 'cropper-reused-after-its-configuration-changed')
    if other_grid:
        ctx.nontrivial(('reconf-grid', case['line'], case['lh'], case['poly'], tuple(case['reconf'])), 'crop-after-a-sampling-grid-of-another-height')
    if after_blank:
        ctx.nontrivial(('reconf-blank', case['line'], case['lh'], case['poly'], tuple(case['reconf'])), 'crop-after-a-line-that-fell-back-to-the-blank-image')


def check_case(case, ctx):
    if 'degenerate' in case:
        return check_degenerate(case, ctx)
    if 'edge' in case:
        return check_edge(case, ctx)
    if 'reconf' in case:
        return check_reconf(case, ctx)
    import cv2
    from pero_ocr.core.crop_engine import EngineLineCropper
    pts = baseline_points(case['start'], case['dx'], SLOPES[case['slope']], case['pc'], dense=case.get('dense'))
    if case.get('dense'):
        ctx.tag('baselines-with-more-than-64-points' if case['dense'] > 64 else 'densely-sampled-baselines')
    h_up, h_down = HEIGHTS[case['h']]
    lh, sc, poly = case['lh'], case['scale'], case['poly']
    ctx.state((tuple(map(tuple, pts)), case['h'], lh, sc, poly))
    K = f'{ID}/poly{poly}'
    desc = f'baseline {pts}, heights {(h_up, h_down)}, poly={poly}, line_height={lh}, scale={sc}'
    img = coord_image()
    eng = EngineLineCropper(line_height=lh, poly=poly, scale=sc)
    hts = np.asarray([h_up, h_down], dtype=np.float64)       # heights as the layout engine / ALTO import deliver them
    crop = eng.crop(img, np.asarray(pts), hts)
    ctx.executed()
    # history: a long-lived cropper that has cropped many other lines before gives the same crop as a fresh one
    if case['h'] == 0:
        shared = _SHARED.setdefault((lh, poly, sc), EngineLineCropper(line_height=lh, poly=poly, scale=sc))
        other = shared.crop(img, np.asarray(pts), np.asarray([h_up, h_down], dtype=np.float64))
        ctx.executed()
        # ... and the crop it handed out for the PREVIOUS line (still held by that line) is not touched by this call
        prev = _HELD.get((lh, poly, sc))
        _HELD[(lh, poly, sc)] = (other, other.copy(), desc)
        if prev is not None and not np.array_equal(prev[0], prev[1]):
            ctx.violation('same-crop-on-every-call', f'{K}/crop-of-the-previous-line-overwritten',
                          f'{desc}: cropping this line changed the array returned earlier for the previous line ({prev[2]}); both crops have shape '
                          f'{prev[0].shape} / {other.shape}')
            return
        if prev is not None and prev[0].shape == other.shape:
            ctx.tag('consecutive-crops-of-equal-shape')
        if other.shape != crop.shape or not np.array_equal(other, crop):
            ctx.violation('same-crop-on-every-call', f'{K}/long-lived-cropper-differs-from-a-fresh-one',
                          f'{desc}: a cropper object that has cropped other lines before yields {other.shape}, a fresh one {crop.shape}'
                          + ('' if other.shape != crop.shape else f' (max difference {float(np.abs(other.astype(float) - crop.astype(float)).max())})'))
            return
    # history: cropping the same line again (same arguments) gives the same crop and leaves the arguments alone
    if case['h'] in (0, 3) and case['slope'] in (0, 3):
        again = eng.crop(img, np.asarray(pts), hts)
        ctx.executed()
        if again.shape != crop.shape or not np.array_equal(again, crop):
            ctx.violation('same-crop-on-every-call', f'{K}/second-crop-of-the-same-line-differs',
                          f'{desc}: cropping the same line twice gives {crop.shape} then {again.shape}; heights argument now {hts.tolist()}')
            return
        ctx.tag('cropped-twice')
    P = np.asarray(pts, dtype=float)
    L = float(np.hypot(*(P[-1] - P[0])))
    u = (P[-1] - P[0]) / L
    n = np.asarray([-u[1], u[0]])
    # distance of the inner points from the chord (the fitted curve need not pass through them)
    dev = max(abs(float(np.dot(p - P[0], n))) for p in P)
    if crop.dtype != np.float32 or (crop.shape[1] == 32 and not crop.any()):
        ctx.violation('non-degenerate-is-actually-cropped', f'{K}/blank-fallback/{len(pts)}-points',
                      f'{desc}: the crop silently fell back to a blank image {crop.shape} {crop.dtype}')
        return
    sf = lh / ((h_up + h_down) * sc)
    if crop.shape[0] != lh or crop.shape[2] != 3:
        ctx.violation('exact-height', f'{K}/height', f'{desc}: crop shape {crop.shape}')
        return
    W = crop.shape[1]
    if abs(W - L * sf) > sf + 2 + dev * sf:
        ctx.violation('width-is-length-times-scale', f'{K}/width', f'{desc}: width {W}, baseline length {L:.2f} x {sf:.3f} = {L * sf:.2f}')
        return
    valid = crop[:, :, 2] > 0.999
    XY = crop[:, :, :2].astype(np.float64)
    off = np.linspace(-h_up * sc, h_down * sc, lh)
    amax = float(np.abs(off).max())
    cols = [j for j in range(W) if valid[:, j].all()]
    if case['start'] == 0 and len(cols) < W:
        # lattice baselines are built so that the whole band (heights, bend of the fitted curve, interpolation support) is inside the
        # page; if that is so geometrically, samples without page content are the library's doing, not the harness'
        reach = amax + 2 * dev + 4
        inside = P[:, 0].min() - reach >= 0 and P[:, 1].min() - reach >= 0 and P[:, 0].max() + reach <= IMG_W - 1 and P[:, 1].max() + reach <= IMG_H - 1
        if not inside:
            from mc.core import HarnessError
            raise HarnessError(f'lattice baseline leaves the coordinate image: {desc}')
        ctx.violation('same-pixels-inside-or-outside-the-page', f'{K}/line-inside-the-page-sampled-outside',
                      f'{desc}: the line lies wholly inside the {IMG_W}x{IMG_H} page, yet {W - len(cols)} of {W} crop columns contain samples without page content')
        return
    # baseline point of every column = position at offset 0 (interpolated between the two neighbouring rows)
    r0 = (0 - off[0]) / (off[-1] - off[0]) * (lh - 1)
    i0 = min(int(math.floor(r0)), lh - 2)
    B = XY[i0] + (XY[i0 + 1] - XY[i0]) * (r0 - i0)            # [W, 2]
    bad = kind = None
    full = len(cols) == W
    # "mild curvature": no segment of the baseline polyline turns away from the chord by more than 0.15 rad
    seg = P[1:] - P[:-1]
    ang = np.arctan2(seg @ n, seg @ u)
    mild = bool(np.abs(ang).max() <= 0.15)
    if not mild:
        ctx.tag('strong-curvature-only-weak-clauses')
    if full and W >= 3 and mild:
        if not (np.hypot(*(B[0] - P[0])) <= 1.0 + dev):
            bad, kind = f'first column sits at {B[0].round(2)}, first baseline point is {P[0]}', 'first-column-not-at-first-point'
        elif not (np.hypot(*(B[-1] - P[-1])) <= 2.0 + dev):
            bad, kind = f'last column sits at {B[-1].round(2)}, last baseline point is {P[-1]}', 'last-column-not-at-last-point'
        else:
            sp = np.hypot(*(B[1:] - B[:-1]).T)
            if not (np.abs(sp - sp.mean()).max() <= 0.06 * sp.mean() + 0.05):
                bad, kind = f'column spacing along the baseline varies between {sp.min():.3f} and {sp.max():.3f}', 'columns-not-uniform'
            elif not (np.abs((B - P[0]) @ n).max() <= 1.5 * dev + 1.0):
                bad, kind = f'baseline samples stray {np.abs((B - P[0]) @ n).max():.2f} px from the chord', 'baseline-strays'
    if not bad and mild:
        for j in [c for c in cols if 0 < c < W - 1 and (c - 1) in cols and (c + 1) in cols][::max(1, W // 16)]:
            T = B[j + 1] - B[j - 1]
            T = T / np.hypot(*T)
            nj = np.asarray([-T[1], T[0]])
            d = XY[:, j] - B[j]
            across, along = d @ nj, d @ T
            tol = 0.3 + 0.03 * amax
            if not (np.abs(across - off).max() <= tol and np.abs(along).max() <= tol + 0.05):
                # known defect pattern: the "normal" is the tangent mirrored at the chord normal, (f', 1) instead of (-f', 1)
                sin_t, cos_t = float(T @ n), float(T @ u)
                s2, c2 = 2 * sin_t * cos_t, cos_t * cos_t - sin_t * sin_t          # predicted: along = off*sin(2t), across = off*cos(2t)
                pred_al = off * s2
                if abs(sin_t) > 1e-3 and np.all(np.abs(along - pred_al) <= np.maximum(tol, 0.35 * np.abs(pred_al))) and \
                        np.all(np.abs(across - off * c2) <= tol + 0.05 * np.abs(off)):
                    bad = (f'column {j}: the rows are not perpendicular to the baseline (drift {np.abs(along).max():.2f} px along it at the first/last '
                           f'row); they follow the tangent mirrored about the chord normal, local slope {sin_t / cos_t:.3f}')
                    kind = 'mirrored-normal-on-curved-baseline'
                elif not (np.abs(along).max() <= tol + 0.05):
                    bad = f'column {j}: rows drift {np.abs(along).max():.2f} px along the baseline (not perpendicular)'
                    kind = 'rows-not-perpendicular'
                else:
                    bad = (f'column {j}: rows lie at {np.round(across[[0, -1]], 2)} across the baseline, expected {np.round(off[[0, -1]], 2)} '
                           f'(first row = -ascender)')
                    kind = 'rows-not-from-ascender-to-descender'
                break
            if dev == 0 and full:
                t = float((B[j] - P[0]) @ u)
                t_expected = L * j / max(W - 1, 1)
                if not (abs(t - t_expected) <= 1.5):
                    bad = f'column {j} sits at arc position {t:.2f}, uniform advance from the first to the last point puts it at {t_expected:.2f}'
                    kind = 'columns-not-uniform-first-to-last'
                    break
    if bad:
        key = f'{ID}/{kind}' if kind == 'mirrored-normal-on-curved-baseline' else f'{K}/{kind}'
        ctx.violation('samples-the-band', key, f'{desc}: {bad}')
        if kind != 'mirrored-normal-on-curved-baseline':
            return
    ctx.outcome((W, lh))
    if dev > 0:
        ctx.nontrivial((tuple(map(tuple, pts)), poly), 'curved-baselines')
    if len(pts) >= 4 and poly == 0:
        ctx.tag('cubic-with-4-or-more-points')
    # the baseline may be held in any numeric array type (unsigned ints, floats with integral values): same crop
    if case['start'] == 0 and case['h'] == 0 and case['slope'] in (0, 4, 5):
        for dt in (np.uint16, np.uint32, np.int32, np.float32):
            other = eng.crop(img, np.asarray(pts, dtype=dt), [h_up, h_down])
            ctx.executed()
            if other.shape != crop.shape or not (maxdiff(other, crop) <= 1e-3):
                ctx.violation('samples-the-band', f'{K}/crop-depends-on-baseline-dtype',
                              f'{desc}: the same baseline given as {np.dtype(dt).name} array yields a different crop ({other.shape} vs {crop.shape})')
                return
        ctx.tag('baseline-dtypes')
        # ... or in a plain python sequence (crop / get_crop_inputs take any array-like)
        for kind in ('list-of-lists', 'tuple-of-tuples'):
            other = eng.crop(img, held_as(pts, kind), (h_up, h_down) if kind == 'tuple-of-tuples' else [h_up, h_down])
            ctx.executed()
            if other.shape != crop.shape or not (maxdiff(other, crop) <= 1e-3):
                ctx.violation('samples-the-band', f'{K}/crop-depends-on-what-holds-the-baseline',
                              f'{desc}: the same baseline given as {kind} yields a different crop ({other.shape} vs {crop.shape})')
                return
        ctx.tag('baseline-held-as-a-python-sequence')
    # general path (partly outside) vs fast path (same line inside a larger canvas): same pixels
    if case['start'] in (1, 2) and case['h'] == 0:
        ox, oy = 60, 50
        big = coord_image(IMG_H, IMG_W, ox, oy, IMG_H + 110, IMG_W + 130)
        crop2 = eng.crop(big, np.asarray(pts) + np.asarray([ox, oy]), [h_up, h_down])
        ctx.executed()
        proj = P @ u
        extent = float(proj.max() - proj.min())
        integral_extent = abs(extent - round(extent)) < 1e-6
        if crop2.shape != crop.shape and crop2.shape[0] == lh and (
                abs(crop2.shape[1] - W) == 1 or (integral_extent and abs(crop2.shape[1] - W) <= math.ceil(sf) + 1)):
            # the width is int(length * scale), the length is measured on np.arange(left, right) source samples: when length * scale - or the
            # extent right - left itself (a Pythagorean baseline) - is an integer up to round-off, the rotation about the page origin decides
            # between two neighbouring values (one column, or one source sample = `scale` columns); accepted as round-off and counted,
            # anything else is a violation
            ctx.tag('skipped-width-differs-by-one-roundoff')
        elif crop2.shape != crop.shape or not (maxdiff(crop2, crop) <= 0.2):
            worst = float(np.abs(crop2.astype(np.float64) - crop.astype(np.float64)).max()) if crop2.shape == crop.shape else None
            ctx.violation('same-pixels-on-fast-and-general-path', f'{K}/shifted-crop-differs',
                          f'{desc}: cropping the line from the page shifted by ({ox},{oy}) inside a larger canvas gives different pixels '
                          f'(shapes {crop.shape} / {crop2.shape}, max difference {worst})')
            return
        if not valid.all():
            ctx.tag('general-path-vs-fast-path')
        # the same comparison through the page-level LineCropper (process_page and crop_lines)
        if case['lh'] == BOUNDS['quick']['line_h'][0] and case['slope'] in (0, 1, 4):
            import configparser
            from pero_ocr.core.layout import PageLayout, RegionLayout, TextLine
            from pero_ocr.document_ocr.page_parser import LineCropper
            cfg = configparser.ConfigParser()
            cfg['LINE_CROPPER'] = {'INTERP': str(poly), 'LINE_SCALE': str(sc), 'LINE_HEIGHT': str(lh)}
            res = []
            for image, shift in ((img, (0, 0)), (big, (ox, oy))):
                lc = LineCropper(cfg['LINE_CROPPER'])
                page = PageLayout(id='p', page_size=image.shape[:2])
                reg = RegionLayout('r', np.zeros((4, 2)))
                reg.lines.append(TextLine(id='l', baseline=np.asarray(pts) + np.asarray(shift), heights=[h_up, h_down]))
                page.regions.append(reg)
                lc.process_page(image, page)
                c1 = reg.lines[0].crop
                if shift == (0, 0) and case['start'] == 1:
                    # history on one page object: the layout is refined (the baseline moves down by 3 px) and the page is cropped again -
                    # every line then carries the crop of its CURRENT baseline
                    moved = np.asarray(pts) + np.asarray([0, 3])
                    reg.lines[0].baseline = moved
                    lc.process_page(image, page)
                    again = reg.lines[0].crop
                    l3 = TextLine(id='l3', baseline=moved.copy(), heights=[h_up, h_down])
                    LineCropper(cfg['LINE_CROPPER']).crop_lines(image, [l3])
                    ctx.executed(2)
                    if again is None or again.shape != l3.crop.shape or not (maxdiff(again, l3.crop) <= 1e-3):
                        ctx.violation('samples-the-band', f'{ID}/LineCropper/process_page/second-pass-keeps-the-crop-of-the-old-baseline',
                                      f'{desc}: after the baseline was moved to {moved.tolist()} and the page cropped again, the line does not carry the crop of '
                                      f'its current baseline')
                        return
                    reg.lines[0].baseline = np.asarray(pts) + np.asarray(shift)
                    reg.lines[0].crop = c1
                    ctx.tag('page-cropped-again-after-the-layout-changed')
                l2 = TextLine(id='l2', baseline=np.asarray(pts) + np.asarray(shift), heights=[h_up, h_down])
                lc.crop_lines(image, [l2])
                res.append((c1, l2.crop))
                ctx.executed(2)
            for which, k in (('process_page', 0), ('crop_lines', 1)):
                a_, b_ = res[0][k], res[1][k]
                if a_.shape != b_.shape and abs(a_.shape[1] - b_.shape[1]) == 1 and a_.shape[0] == b_.shape[0]:
                    continue
                if a_.shape != b_.shape or not (maxdiff(a_, b_) <= 0.2) or \
                        a_.shape != crop.shape and abs(a_.shape[1] - crop.shape[1]) > 1:
                    ctx.violation('same-pixels-on-fast-and-general-path', f'{ID}/LineCropper/{which}/shifted-crop-differs',
                                  f'{desc}: LineCropper.{which} gives a crop of shape {a_.shape} from the page and {b_.shape} from the shifted canvas '
                                  f'(engine crop {crop.shape})')
                    return
            ctx.tag('line-cropper-partly-outside')
    # fast_remap against a plain full-image remap with the same coordinates
    if case['start'] == 0 and case['h'] == 0:
        coords = eng.get_crop_inputs(np.asarray(pts), [h_up, h_down], lh)
        full = cv2.remap(img, coords[:, :, 0], coords[:, :, 1], interpolation=cv2.INTER_LINEAR, borderMode=cv2.BORDER_CONSTANT)
        fast = eng.fast_remap(img, coords)
        ctx.executed(2)
        if fast.shape != full.shape or not (maxdiff(fast, full) <= 0.1):
            ctx.violation('same-pixels-on-fast-and-general-path', f'{K}/fast_remap-differs-from-full-remap',
                          f'{desc}: max difference {float(np.abs(fast - full).max()) if fast.shape == full.shape else None}')
            return
        ctx.tag('fast-path-vs-full-remap')
        # history: ONE sampling grid is used for a second raster of the page (an ink mask, a detection map - here the page again): the second
        # cut equals the first
        second = eng.fast_remap(img, coords)
        ctx.executed()
        if second.shape != fast.shape or not (maxdiff(second, fast) <= 1e-3):
            ctx.violation('same-pixels-on-fast-and-general-path', f'{K}/second-raster-cut-with-the-same-grid-differs',
                          f'{desc}: the grid of get_crop_inputs was passed to fast_remap twice with the same page: shapes {fast.shape} / {second.shape}'
                          + ('' if second.shape != fast.shape else f', max difference {maxdiff(second, fast)}'))
            return
        ctx.tag('same-grid-used-for-a-second-raster')
    # the crop handed back together with its forward mapping (baseline refinement asks for it): the same crop, and the mapping is where the crop
    # was sampled - on the coordinate image the crop IS the source coordinate of its samples
    if case['h'] == 0 and case['slope'] in (0, 3, 6):
        res = eng.crop(img, np.asarray(pts), hts, return_forward_mapping=True)
        ctx.executed()
        c3, fwd = res
        if c3.shape != crop.shape or not (maxdiff(c3, crop) <= 1e-3):
            ctx.violation('same-crop-on-every-call', f'{K}/crop-returned-with-its-forward-mapping-differs',
                          f'{desc}: crop(..., return_forward_mapping=True) returns a crop of shape {c3.shape}, the plain call {crop.shape}')
            return
        fwd = np.asarray(fwd)
        # samples taken from the page proper only: on the border a sample is blended with the constant outside (weight w -> coordinate x * w)
        sel = c3[:, :, 2] > 1 - 1e-5
        if fwd.shape != c3.shape[:2] + (2,) or not (maxdiff(fwd[sel], c3[:, :, :2][sel]) <= 0.1):
            ctx.violation('samples-the-band', f'{K}/forward-mapping-returned-with-the-crop-is-not-where-the-crop-was-sampled',
                          f'{desc}: mapping of shape {fwd.shape} for a crop {c3.shape}'
                          + ('' if fwd.shape != c3.shape[:2] + (2,) else f'; it is up to {maxdiff(fwd[sel], c3[:, :, :2][sel])} px away from the source '
                             f'coordinates of the samples taken from the page (first sample: mapping {fwd[0, 0].tolist()}, crop {c3[0, 0, :2].tolist()})'))
            return
        if sel.any():
            ctx.tag('crop-with-forward-mapping-inside-the-page' if sel.all() else 'crop-with-forward-mapping-partly-outside')
    if case['dx'] == 59 and case['slope'] == 1 and case['pc'] == 0 and lh == 16 and sc == 1.0 and case['h'] == 0 and case['start'] == 0:
        ctx.sample({'baseline': pts, 'heights': [h_up, h_down], 'poly': poly, 'crop_shape': list(crop.shape),
                    'source_xy_of_first_column_first_and_last_row': [XY[0, 0].round(2).tolist(), XY[-1, 0].round(2).tolist()]})


def describe(tier):
    b = BOUNDS[tier]
    return {
        'rule': 'all combinations start(3) x dx x slope(9) x point configuration(6) x heights x poly(3) x line height x scale; degenerate set (10 baselines '
                'x 3 interpolation orders x 4 containers of the baseline x crop/LineCropper); histories of one cropper: all sequences of length 1..depth over '
                '15 public events (crop, sampling grid of another height, line_height / scale / poly changed, a degenerate line cropped in between) x 3 lines x 2 initial heights x 3 orders. '
                'state = distinct (baseline, heights, line height, scale, poly) resp. (line, initial configuration, history). Non-trivial: baselines whose '
                'inner points deviate from the chord (curve fitting matters); counters for cubic>=4 points, general-vs-fast path, fast_remap-vs-full.',
        'bounds': {k: (v if len(v) < 12 else f'{v[0]}..{v[-1]} step {v[1] - v[0]}') for k, v in b.items()},
        'alphabets': {'starts': STARTS, 'slopes': SLOPES, 'point_cfgs': POINTCFG, 'heights': HEIGHTS, 'polys': POLYS,
                      'degenerate': [d[0] for d in DEGENERATE], 'baseline_containers': CONTAINERS,
                      'cropper_events': [list(e) for e in RECONF_EVENTS], 'cropper_history_lines': [list(l) for l in RECONF_LINES],
                      'cropper_initial_line_heights': RECONF_LH0},
        'assumptions': ['bilinear remap of a coordinate image reproduces the sampling position within 1/32 px',
                        'the last column may fall up to 1 px short of the last baseline point (integer sampling of the baseline)',
                        'for degenerate baselines both a proper crop and a blank image of the configured height are accepted'],
        'min_nontrivial': 100,
        'required_tags': ['band-touching-the-page-by-one-row-or-column', 'baseline-array-moved-in-place', 'consecutive-crops-of-equal-shape', 'baselines-with-more-than-64-points', 'curved-baselines', 'cubic-with-4-or-more-points', 'general-path-vs-fast-path', 'fast-path-vs-full-remap',
                          'degenerate-baselines', 'cropped-twice', 'line-cropper-partly-outside', 'baseline-dtypes', 'page-cropped-again-after-the-layout-changed',
                          'baseline-held-as-a-python-sequence', 'blank-fallback-of-a-baseline-held-as-a-python-sequence',
                          'cropper-reused-after-its-configuration-changed', 'crop-after-a-sampling-grid-of-another-height',
                          'crop-after-a-line-that-fell-back-to-the-blank-image', 'same-grid-used-for-a-second-raster',
                          'crop-with-forward-mapping-inside-the-page', 'crop-with-forward-mapping-partly-outside'],
    }
