"""C11 - Lines are assigned to the regions they lie in, clipped, with unique ids.

Space (geometry lattice): region polygons from a 10-polygon alphabet on a 0..100 integer lattice (square, rectangle, L, U with
prongs of different width, triangle, bow-tie (self-intersecting), two triangles sharing a vertex (self-touching), nested,
overlapping and disjoint squares): ALL sets of 1..Nr regions; baselines from a 13-line alphabet (inside, outside, touching
the boundary in a point, entering once, crossing several regions, crossing the U twice with unequal pieces, inside part of
exactly 2 px / 3 px, diagonal, 3-point polyline, inside the nested square): ALL sets of 1..3 lines.  Then
LayoutExtractor.process_page for all 16 combinations of (detect regions, detect lines, merge lines, multi-orientation) with a
stub detector, and TextlineExtractorSimple with a stub engine.

Environment answers: ONE call the library makes to the geometry library (shapely / GEOS: intersects, intersection; thorough tier also the
operations spelled as attributes is_valid, convex_hull, length, area) fails with TopologicalError / GEOSException - every fault point of
assign_lines_to_regions for all single regions (thorough: all sets of 1..2) x all sets of 1..2 baselines, and of LayoutExtractor.process_page
for 2 scenarios x 16 option combinations.  The call may raise; what it returns is judged like any result, except that no line is DEMANDED.

Histories of two uses (results belong to the caller, detection arrays to the detector): every single region x sets of 1..2 baselines and every
pair of regions x single baselines (thorough: 1..2): (edit-placed) every placed line is moved in place in turn - all other placed lines stay what
they were - then the same detection objects are assigned again; (refill) the detection arrays are refilled in place with the next page and assigned
again - the first result stays what it was, the second is that of the arrays as they are now.  The same with ONE LayoutExtractor processing two
pages with a detector that re-uses its output arrays (16 option combinations x all scenarios).
Comb sub-sweep: a rectangle with two notches (shallow / deep, two of four slots, also upside down) x a horizontal baseline at four levels x three
height pairs x both point orders: notches that cut the baseline but not the whole outline, so that outline and baseline fall into different
numbers of pieces and the longest baseline piece is not in the largest outline piece.

Oracle: shapely predicates evaluated on the OUTPUTS (containment, longest piece recomputed independently, id uniqueness).
"""
import itertools

import numpy as np

ID = 'C11'

MANIFEST = dict(
    technique='explicit-state enumeration of a region-polygon x baseline lattice on the real assign_lines_to_regions, and of all option combinations of the real LayoutExtractor.process_page / TextlineExtractorSimple with stub detectors; geometric oracle on the outputs',
    text='Bounded exhaustive: every set of 1-2 (quick) / 1-3 (thorough) regions over a 10-polygon alphabet (convex, concave, self-intersecting, self-touching, nested, overlapping, disjoint) x every set of 1-3 baselines over a 13-line alphabet (about 16 000 / 58 000 configurations). Every placed line must lie inside its region with a baseline that is a piece of the detected one and an outline clipped to the region; wholly-inside lines longer than 2 px must be placed unchanged, untouched regions get nothing, multiple entries keep the longest piece, and all ids of a page are distinct (also as keys of the logits dictionary). All 16 option combinations of the layout extractor with a stub detector and the simple text-line extractor are driven through the same oracle. Added sub-sweeps: detections held as int32 / int64 / float32 arrays, a self-touching region, MERGE_LINES scenarios (a three-fragment row, zero heights, tilted text with nothing to merge) and the coverage clause for merged lines. Baselines of 2 x 2 px extent that are longer than 2 px (diagonal, hook). Environment answers: one GEOS operation called by the library (intersects / intersection, thorough tier also is_valid / convex_hull / length / area) fails with TopologicalError or GEOSException, every fault point of the assignment for every single region (thorough: 1-2 regions) x 1-2 baselines and of the layout extractor for two scenarios x 16 option combinations: the call may raise, but whatever it returns must still lie inside the region polygons (not merely their hulls), be clipped pieces of detections, never sit in an untouched region and carry distinct ids. Histories of two uses: after an assignment every placed line is moved in place in turn (the other placed lines must stay what they were) and the same detection objects are assigned again; or the detection arrays are refilled in place with the next page and assigned again (the first result must stay what it was, the second is that of the arrays as they are now) - every single region x 1-2 baselines, every pair of regions x 1 (thorough: 1-2) baselines, and one LayoutExtractor processing two pages with a detector that re-uses its output arrays (16 option combinations x all scenarios). Comb sub-sweep (1152 cases): a rectangle with two notches, each shallow or deep, at two of four slots, also upside down, x a horizontal baseline at four levels x three (up, down) height pairs x both point orders, so that a notch cuts nothing / the outline margin / the baseline but not the whole outline / the whole line: the longest baseline piece must be kept also when it is not in the largest outline piece.',
    note='For invalid (self-intersecting / self-touching) region polygons the convex hull is the reference shape (that is what the code documents); a baseline that additionally touches the region in isolated points may be placed or not. After an injected failure of a geometry operation the clauses that demand a line in a region are not applied (the failure may cost the line).',
    ref='3/C11')

REGIONS = [
    [(10, 10), (50, 10), (50, 50), (10, 50)],                                          # 0 square
    [(5, 20), (58, 20), (58, 40), (5, 40)],                                            # 1 wide rectangle
    [(10, 10), (50, 10), (50, 30), (30, 30), (30, 50), (10, 50)],                      # 2 L
    [(10, 10), (20, 10), (20, 40), (35, 40), (35, 10), (50, 10), (50, 50), (10, 50)],  # 3 U, prongs 10 and 15 wide
    [(10, 50), (50, 50), (30, 10)],                                                    # 4 triangle
    [(10, 10), (50, 50), (50, 10), (10, 50)],                                          # 5 bow-tie (self-intersecting)
    [(10, 10), (30, 30), (10, 50), (50, 50), (30, 30), (50, 10)],                      # 6 two triangles sharing a vertex
    [(20, 20), (40, 20), (40, 40), (20, 40)],                                          # 7 nested in 0
    [(30, 30), (60, 30), (60, 60), (30, 60)],                                          # 8 overlaps 0
    [(70, 70), (90, 70), (90, 90), (70, 90)],                                          # 9 disjoint
    [(10, 60), (50, 65), (62, 98)],                                                    # 10 open triangle whose LAST vertex is its extreme point in x and in y
]
LINES = [
    [(15, 29), (45, 29)],            # 0 inside the square
    [(0, 5), (8, 5)],                # 1 outside everything
    [(0, 29), (10, 29)],             # 2 touches the square in one point
    [(0, 29), (30, 29)],             # 3 enters once
    [(0, 33), (100, 33)],            # 4 crosses several regions
    [(0, 21), (60, 21)],             # 5 crosses the U twice: pieces of 10 and 15 px
    [(0, 27), (12, 27)],             # 6 exactly 2 px inside the square
    [(0, 25), (13, 25)],             # 7 3 px inside
    [(5, 7), (55, 58)],              # 8 diagonal
    [(15, 23), (30, 26), (45, 23)],  # 9 3-point polyline inside
    [(22, 31), (38, 31)],            # 10 inside the nested square
    [(72, 81), (88, 81)],            # 11 inside the disjoint square
    [(12, 21), (48, 21)],            # 12 both end points (and the whole outline's vertices) inside the U, the segment crosses its notch
    [(52, 84), (57, 91)],            # 13 inside the corner of triangle 10 next to its last vertex
    [(24, 24), (26, 26)],            # 14 a 2 x 2 px diagonal inside the squares: 2.83 px long although it spans only 2 px along either axis
    [(40, 42), (42, 42), (42, 40)],  # 15 a 2 x 2 px hook, 4 px long
]
HEIGHTS = [4, 2]
# geos_*: the sub-sweep 'one GEOS operation called by the library fails' (see check_assign): region sets up to geos_regions, line sets up to
# geos_lines; geos_props: also the operations spelled as attributes (is_valid, convex_hull, length, area)
# hist_pair_lines: the histories (HISTORIES) run for every single region x every set of 1..2 baselines and for every PAIR of regions x every set
# of 1..hist_pair_lines baselines
BOUNDS = {'quick': dict(max_regions=2, geos_regions=1, geos_lines=2, geos_props=0, hist_pair_lines=1),
          'thorough': dict(max_regions=3, geos_regions=2, geos_lines=2, geos_props=1, hist_pair_lines=2)}
BOUNDS['replay'] = BOUNDS['quick']
GEOS_ERRORS = ['TopologicalError', 'GEOSException']   # what shapely 1 raised (and the library has an except clause for) / what shapely 2 raises
GEOS_EXTRACTOR_SCENARIOS = [0, 1]                      # several regions and orientations / the U-shaped region crossed twice
EPS = 1e-6
# histories of two uses (the results of an assignment belong to the caller, the detection arrays to the detector):
#  edit-placed: assign; the caller refines every placed line in place, one after the other - all OTHER placed lines must still be what they
#               were; then the same detection objects are assigned again (fresh regions): the result is that of the detections
#  refill:      assign; the detector writes the next page's detections (the same content moved by NEXT_PAGE_SHIFT, regions too) into the SAME arrays;
#               assign again: the first result
#               must still be what it was, the second is that of the arrays as they are now
HISTORIES = ['edit-placed', 'refill']
NEXT_PAGE_SHIFT = (4.0, 3.0)
# comb sub-sweep (outline and baseline of one line cut DIFFERENTLY by one region): a 90 x 55 rectangle with two notches, each either shallow or
# deep, at two of four slots; a horizontal baseline at four levels x three (up, down) height pairs, so that a notch cuts nothing / only the
# outline's lower margin / the baseline but not the whole outline / the whole line; both point orders; the comb also upside down
COMB_SLOTS = [(21, 26), (36, 41), (56, 61), (73, 78)]
COMB_TIPS = {'shallow': 31, 'deep': 11}       # y of the tip of a notch cut from the bottom edge (y = 60); never level +- a height (no edge of an outline lies ON a tip)
COMB_LEVELS = [20, 26, 34, 45]
COMB_HEIGHTS = [[8, 2], [2, 8], [4, 2]]
COMB_X = (8, 93)


def setup(tier):
    pass


def shards(tier):
    out = []
    n = len(REGIONS)
    for r in range(1, BOUNDS[tier]['max_regions'] + 1):
        for first in range(n):
            out.append({'kind': 'assign', 'nreg': r, 'first': first})
    out.append({'kind': 'extractor'})
    out.append({'kind': 'extractor-pages'})
    for flip in (0, 1):
        for slots in itertools.combinations(range(len(COMB_SLOTS)), 2):
            out.append({'kind': 'comb', 'slots': list(slots), 'flip': flip})
    for scen in GEOS_EXTRACTOR_SCENARIOS:
        out.append({'kind': 'extractor-geos', 'scenario': scen})
    return out


def run_shard(shard, ctx, tier):
    from mc.core import guarded_check
    import sys
    mod = sys.modules[__name__]
    if shard['kind'] == 'extractor':
        for opts in itertools.product((0, 1), repeat=4):
            for scen in range(len(SCENARIOS)):
                guarded_check(mod, {'extractor': list(opts), 'scenario': scen}, ctx)
        for scen in range(len(SCENARIOS)):
            guarded_check(mod, {'simple': scen}, ctx)
        return
    B = BOUNDS[tier]
    if shard['kind'] == 'extractor-pages':
        for opts in itertools.product((0, 1), repeat=4):
            for scen in range(len(SCENARIOS)):
                guarded_check(mod, {'extractor': list(opts), 'scenario': scen, 'pages': 2}, ctx)
        return
    if shard['kind'] == 'comb':
        for depths in itertools.product(sorted(COMB_TIPS), repeat=2):
            for level in range(len(COMB_LEVELS)):
                for h in range(len(COMB_HEIGHTS)):
                    for rev in (0, 1):
                        guarded_check(mod, {'comb': {'slots': shard['slots'], 'depths': list(depths), 'flip': shard['flip']},
                                            'level': level, 'h': h, 'rev': rev}, ctx)
        return
    if shard['kind'] == 'extractor-geos':
        for opts in itertools.product((0, 1), repeat=4):
            for exc in GEOS_ERRORS:
                guarded_check(mod, {'extractor': list(opts), 'scenario': shard['scenario'], 'geos_fails': exc, 'geos_props': B['geos_props']}, ctx)
        return
    n = len(REGIONS)
    for rest in itertools.combinations(range(shard['first'] + 1, n), shard['nreg'] - 1):
        regs = [shard['first']] + list(rest)
        for k in range(1, 4):
            for ls in itertools.combinations(range(len(LINES)), k):
                guarded_check(mod, {'regions': regs, 'lines': list(ls)}, ctx)
                if shard['nreg'] == 1 and k <= 2:
                    for dt in ('int32', 'int64', 'float32'):      # detections held in integer / single-precision arrays (rounded to pixels)
                        guarded_check(mod, {'regions': regs, 'lines': list(ls), 'dt': dt}, ctx)
                if (shard['nreg'] == 1 and k <= 2) or (shard['nreg'] == 2 and k <= B['hist_pair_lines']):
                    for hist in HISTORIES:                        # two uses in a row: results kept by the caller, detection arrays re-used
                        guarded_check(mod, {'regions': regs, 'lines': list(ls), 'history': hist}, ctx)
                if shard['nreg'] <= B['geos_regions'] and k <= B['geos_lines']:
                    for exc in GEOS_ERRORS:                       # environment answer: ONE GEOS operation the library calls fails, every fault point
                        guarded_check(mod, {'regions': regs, 'lines': list(ls), 'geos_fails': exc, 'geos_props': B['geos_props']}, ctx)


# ------------------------------------------------------------------ oracle on outputs
def ref_shape(poly):
    import shapely.geometry as sg
    p = sg.Polygon(poly)
    return p if p.is_valid else p.convex_hull


def line_pieces(geom):
    """LineString pieces (length > 0) and whether isolated points are present"""
    import shapely.geometry as sg
    pieces, points = [], False
    geoms = list(geom.geoms) if hasattr(geom, 'geoms') else [geom]
    for g in geoms:
        if isinstance(g, sg.LineString) and g.length > 0:
            pieces.append(g)
        elif isinstance(g, (sg.Point, sg.MultiPoint)) and not g.is_empty:
            points = True
    return pieces, points


def check_regions(regions_out, inputs, ctx, K, desc, case, check_presence=True, must_place=True):
    """regions_out: RegionLayout list after assignment; inputs: list of (baseline array, outline array).
    must_place=False (result returned although an operation of the geometry library failed): the two clauses that DEMAND a line in a region
    are not applied (the failure may cost the line); everything that IS placed is judged as always"""
    import shapely.geometry as sg
    ids = []
    for reg in regions_out:
        shape = ref_shape(reg.polygon)
        placed_sources = []
        for line in reg.lines:
            ids.append(line.id)
            bl = sg.LineString(line.baseline)
            src = [i for i, (b, o) in enumerate(inputs) if sg.LineString(b).buffer(EPS).covers(bl)]
            if not src:
                ctx.violation('baseline-is-piece-of-detected-baseline', f'{K}/baseline-not-a-piece-of-any-detected-baseline',
                              f'{desc}: line {line.id} baseline {np.asarray(line.baseline).round(2).tolist()}', case)
                return False
            # several detected baselines may cover the piece (collinear detections): take the one whose own longest piece in this
            # region matches the placed piece best, and that has not been used yet
            def fit(k):
                ps, _ = line_pieces(shape.intersection(sg.LineString(inputs[k][0])))
                return (k in placed_sources, abs((max(p.length for p in ps) if ps else 0) - bl.length))
            i = min(src, key=fit)
            placed_sources.append(i)
            if not shape.buffer(EPS).covers(bl):
                ctx.violation('placed-line-lies-inside-region', f'{K}/baseline-outside-region',
                              f'{desc}: line {line.id} baseline {np.asarray(line.baseline).round(2).tolist()} leaves region {reg.id}', case)
                return False
            out_in = sg.Polygon(inputs[i][1])
            if not out_in.is_valid:
                out_in = out_in.convex_hull
            out = sg.Polygon(line.polygon)
            if not shape.intersection(out_in).buffer(1e-4).covers(out):
                ctx.violation('outline-clipped-to-region', f'{K}/outline-not-clipped-to-region',
                              f'{desc}: line {line.id} outline {np.asarray(line.polygon).round(2).tolist()} is not inside region {reg.id} and its own outline', case)
                return False
            pieces, points = line_pieces(shape.intersection(sg.LineString(inputs[i][0])))
            longest = max(p.length for p in pieces) if pieces else 0
            if not (bl.length >= longest - 1e-6):        # (NaN-aware)
                ctx.violation('keeps-longest-piece', f'{K}/not-the-longest-piece',
                              f'{desc}: line {line.id} keeps a piece of length {bl.length:.2f}, the longest piece inside region {reg.id} is {longest:.2f}', case)
                return False
            if len(pieces) > 1:
                ctx.tag('several-pieces')
        if check_presence and len(set(placed_sources)) != len(placed_sources):
            ctx.violation('placed-once', f'{K}/line-placed-twice-in-a-region', f'{desc}: region {reg.id} sources {placed_sources}', case)
            return False
        if not check_presence:
            continue
        for i, (b, o) in enumerate(inputs):
            bl_in = sg.LineString(b)
            pieces, points = line_pieces(shape.intersection(bl_in))
            present = i in placed_sources
            if not shape.intersects(bl_in):
                if present:
                    ctx.violation('untouched-region-gets-nothing', f'{K}/placed-in-untouched-region', f'{desc}: input line {i} in region {reg.id}', case)
                    return False
                continue
            if shape.covers(bl_in) and not shape.boundary.intersects(bl_in) and bl_in.length > 2:
                if not present and not must_place:
                    continue
                if not present:
                    ctx.violation('wholly-inside-line-always-placed', f'{K}/inside-line-missing', f'{desc}: input line {i} lies wholly inside region {reg.id}', case)
                    return False
                ln = reg.lines[placed_sources.index(i)]
                if np.asarray(ln.baseline).shape != np.asarray(b).shape or not (np.abs(np.asarray(ln.baseline, dtype=float) - np.asarray(b, dtype=float)).max() <= 1e-6):
                    ctx.violation('wholly-inside-line-always-placed', f'{K}/inside-line-changed',
                                  f'{desc}: input line {i} baseline {np.asarray(b).tolist()} became {np.asarray(ln.baseline).tolist()}', case)
                    return False
                ctx.tag('wholly-inside')
            elif pieces and not points and max(p.length for p in pieces) > 2 + 1e-6 and not present and must_place:
                ctx.violation('crossing-line-keeps-its-piece', f'{K}/crossing-line-missing',
                              f'{desc}: input line {i} has {max(p.length for p in pieces):.2f} px inside region {reg.id} but was not placed', case)
                return False
            elif pieces and max(p.length for p in pieces) <= 2 - 1e-6 and present:
                ctx.violation('short-pieces-dropped', f'{K}/short-piece-placed', f'{desc}: input line {i} in region {reg.id}', case)
                return False
    if len(set(ids)) != len(ids):
        dup = sorted({i for i in ids if ids.count(i) > 1})
        ctx.violation('line-ids-distinct', f'{K}/duplicate-line-ids', f'{desc}: ids {dup} occur more than once on the page', case)
        return False
    return True


def make_inputs(line_idx, heights=None, dt=None):
    from pero_ocr.layout_engines.layout_helpers import baseline_to_textline
    bs = [np.asarray(line_points(i), dtype=np.float64) for i in line_idx]
    if dt is None:
        return [(b, baseline_to_textline(b, heights or HEIGHTS)) for b in bs]
    out = []
    for b in bs:
        b = np.round(b).astype(dt)
        o = baseline_to_textline(b.astype(np.float64), heights or HEIGHTS)
        out.append((b, np.round(o).astype(dt)))
    return out


def geos_injector(case):
    """environment answer 'an operation of the geometry library fails': every call the library makes to a GEOS predicate / set operation
    (with geos_props also the ones spelled as attributes) is a fault point; it raises the error class named in the case"""
    from mc import faults
    props = bool(case.get('geos_props'))
    return (faults.AttributeInjector if props else faults.Injector)(faults.geos_operations(props), faults.geos_error(case['geos_fails']))


def hull_gap_reached(region_idx, inputs):
    """does a detected baseline run through a part of the convex hull of a (valid, concave) region that is not region?"""
    import shapely.geometry as sg
    for i in region_idx:
        shape = ref_shape(REGIONS[i])
        gap = shape.convex_hull.difference(shape)
        if gap.area > 1e-9 and any(gap.intersection(sg.LineString(b)).length > 1e-9 for b, _ in inputs):
            return True
    return False


def check_assign_geos(case, ctx):
    """ONE call of the library to the geometry library fails (all fault points in turn).  The assignment may raise; a result that is
    returned is a result like any other: every line it places lies inside its region, is a piece of a detected baseline, clipped, the longest
    piece, never in a region it does not touch, ids distinct.  Only the clauses demanding that a line IS placed are not applied."""
    from pero_ocr.core.layout import RegionLayout
    from pero_ocr.layout_engines.layout_helpers import assign_lines_to_regions
    inputs = make_inputs(case['lines'])
    kind = case['geos_fails']
    ctx.state((tuple(case['regions']), tuple(case['lines']), 'geos', kind, bool(case.get('geos_props'))))

    def run():
        regs = [RegionLayout(f'r{i}', np.asarray(REGIONS[i], dtype=np.float64)) for i in case['regions']]
        return assign_lines_to_regions([b.copy() for b, _ in inputs], [list(HEIGHTS) for _ in inputs], [o.copy() for _, o in inputs], regs)
    gap = hull_gap_reached(case['regions'], inputs)
    desc = f'regions {[REGIONS[i] for i in case["regions"]]}, baselines {[LINES[i] for i in case["lines"]]}'
    for k, site, (what, val) in geos_injector(case).explore(run):
        ctx.executed()
        if k is None:
            if what == 'raised':
                return          # (the same case without a failure is enumerated too and reports this)
            continue
        op = site[2]
        ctx.tag('geos-failure-injected')
        if what == 'raised':
            ctx.outcome(('geos', op, 'raised'))
            continue
        ctx.tag('result-returned-after-geos-failure')
        if gap:
            ctx.tag('result-returned-after-geos-failure-baseline-in-hull-of-concave-region-outside-it')
        ctx.outcome(('geos', op, sum(len(r.lines) for r in val)))
        if not check_regions(val, inputs, ctx, f'{ID}/assign/after-failed-{op}',
                             f'{desc}; call #{k} of the library to the geometry library ({op} in {site[1]}) raised {kind}', case, must_place=False):
            return


# ------------------------------------------------------------------ histories: results kept by the caller, detection arrays re-used
def snapshot(regions):
    """what the caller sees of a result: (region id, line id) -> copies of baseline and outline"""
    return {(r.id, i, ln.id): (np.array(ln.baseline, dtype=np.float64), np.array(ln.polygon, dtype=np.float64)) for r in regions for i, ln in enumerate(r.lines)}


def first_difference(regions, expected):
    """None if the result is (still) what `expected` says, else a description of the first line that is not"""
    now = snapshot(regions)
    if sorted(now) != sorted(expected):
        return f'lines {sorted(k[2] for k in now)} instead of {sorted(k[2] for k in expected)}'
    for k in sorted(expected):
        for what, a, b in zip(('baseline', 'outline'), now[k], expected[k]):
            if a.shape != b.shape or not (np.abs(a - b).max() <= 1e-9 if a.size else True):      # (NaN-aware)
                return f'{what} of line {k[2]} in region {k[0]} is {a.round(2).tolist()}, it was {b.round(2).tolist()}'
    return None


def check_assign_history(case, ctx):
    from pero_ocr.core.layout import RegionLayout
    from pero_ocr.layout_engines.layout_helpers import assign_lines_to_regions
    hist = case['history']
    inputs = make_inputs(case['lines'])                       # pristine, never handed to the library
    b_list, t_list = [b.copy() for b, _ in inputs], [o.copy() for _, o in inputs]      # the detector's arrays
    ctx.state((tuple(case['regions']), tuple(case['lines']), 'history', hist))
    fresh = lambda shift=(0.0, 0.0): [RegionLayout(f'r{i}', np.asarray(REGIONS[i], dtype=np.float64) + np.asarray(shift)) for i in case['regions']]
    desc = f'regions {[REGIONS[i] for i in case["regions"]]}, baselines {[LINES[i] for i in case["lines"]]}'
    first = assign_lines_to_regions(b_list, [list(HEIGHTS) for _ in inputs], t_list, fresh())
    ctx.executed()
    if not check_regions(first, inputs, ctx, f'{ID}/assign', desc, case):
        return
    expected = snapshot(first)
    if hist == 'edit-placed':
        placed = [(r, i, ln) for r in first for i, ln in enumerate(r.lines)]
        if any(not (np.asarray(ln.baseline).flags.writeable and np.asarray(ln.polygon).flags.writeable) for _, _, ln in placed):
            ctx.tag('placed-line-arrays-read-only')          # nothing the caller could edit in place
            return
        for r, i, ln in placed:
            ln.baseline[:, 1] -= 3                           # the caller refines this line (and only this line) in place
            ln.polygon[:, 1] -= 3
            b, o = expected[(r.id, i, ln.id)]
            b[:, 1] -= 3
            o[:, 1] -= 3
            diff = first_difference(first, expected)
            if diff:
                ctx.violation('baseline-is-piece-of-detected-baseline', f'{ID}/assign/kept-result/another-placed-line-changes-when-one-placed-line-is-edited-in-place',
                              f'{desc}: after line {ln.id} of region {r.id} was moved 3 px up in place: {diff}', case)
                return
        if len(placed) >= 2:
            ctx.tag('placed-line-edited-in-place-others-kept')
        second_inputs, K2 = inputs, f'{ID}/assign/second-call-after-placed-lines-were-edited-in-place'
        d2 = f'{desc}; the lines placed by a first call were moved in place, then the same detection objects are assigned again'
    else:
        shift = np.asarray(NEXT_PAGE_SHIFT)
        second_inputs = [(b + shift, o + shift) for b, o in inputs]
        for dst_b, dst_o, (b, o) in zip(b_list, t_list, second_inputs):      # the detector writes the next page into the same arrays
            dst_b[:] = b
            dst_o[:] = o
        K2 = f'{ID}/assign/second-call-on-refilled-detection-arrays'
        d2 = f'{desc}; second call with the same detection arrays refilled in place (the next page: regions and detections moved by {NEXT_PAGE_SHIFT})'
    second = assign_lines_to_regions(b_list, [list(HEIGHTS) for _ in inputs], t_list, fresh(NEXT_PAGE_SHIFT if hist == 'refill' else (0.0, 0.0)))
    ctx.executed()
    if hist == 'refill':
        diff = first_difference(first, expected)
        if diff:
            ctx.violation('baseline-is-piece-of-detected-baseline', f'{ID}/assign/kept-result/first-result-changes-when-the-detection-arrays-are-refilled-for-a-second-call',
                          f'{desc}: after the detection arrays were refilled (moved by {NEXT_PAGE_SHIFT}) and assigned again: {diff}', case)
            return
        if expected:
            ctx.tag('first-result-kept-while-detection-arrays-are-refilled')
    if not check_regions(second, second_inputs, ctx, K2, d2, case):
        return
    n1, n2 = sum(len(r.lines) for r in first), sum(len(r.lines) for r in second)
    if n1 != n2:
        ctx.violation('wholly-inside-line-always-placed', f'{K2}/different-number-of-lines', f'{d2}: {n2} lines, the first call placed {n1}', case)
        return
    ctx.tag('second-call-same-detection-objects')
    ctx.outcome((tuple(case['regions']), hist, n1))
    if n1 >= 2:
        ctx.nontrivial((tuple(case['regions']), tuple(case['lines']), hist), 'history-with-several-placed-lines')


# ------------------------------------------------------------------ comb: outline and baseline cut differently
def comb_polygon(slots, depths, flip):
    pts = [(5, 5), (95, 5), (95, 60)]
    for (x0, x1), d in sorted(zip([COMB_SLOTS[i] for i in slots], depths), reverse=True):
        pts += [(x1, 60), (x1, COMB_TIPS[d]), (x0, COMB_TIPS[d]), (x0, 60)]
    pts.append((5, 60))
    return [(x, 65 - y) for x, y in pts] if flip else pts


def check_comb(case, ctx):
    import shapely.geometry as sg
    from pero_ocr.core.layout import RegionLayout
    from pero_ocr.layout_engines.layout_helpers import assign_lines_to_regions, baseline_to_textline
    c = case['comb']
    poly = comb_polygon(c['slots'], c['depths'], c['flip'])
    y = COMB_LEVELS[case['level']]
    y = 65 - y if c['flip'] else y
    pts = [(COMB_X[0], y), (COMB_X[1], y)]
    b = np.asarray(pts[::-1] if case['rev'] else pts, dtype=np.float64)
    heights = COMB_HEIGHTS[case['h']]
    inputs = [(b, baseline_to_textline(b, heights))]
    ctx.state(('comb', tuple(c['slots']), tuple(c['depths']), c['flip'], case['level'], case['h'], case['rev']))
    shape = ref_shape(poly)
    bp, _ = line_pieces(shape.intersection(sg.LineString(b)))
    oi = shape.intersection(sg.Polygon(inputs[0][1]))
    op = [g for g in (oi.geoms if hasattr(oi, 'geoms') else [oi]) if isinstance(g, sg.Polygon) and g.area > 0]
    out = assign_lines_to_regions([b.copy()], [list(heights)], [inputs[0][1].copy()], [RegionLayout('r0', np.asarray(poly, dtype=np.float64))])
    ctx.executed()
    desc = f'region {poly}, baseline {b.tolist()}, heights {heights}'
    if not check_regions(out, inputs, ctx, f'{ID}/assign-comb', desc, case):
        return
    ctx.outcome(('comb', len(bp), len(op), [round(float(sg.LineString(ln.baseline).length)) for ln in out[0].lines]))
    if len(bp) > 1:
        ctx.nontrivial(('comb', tuple(c['slots']), tuple(c['depths']), c['flip'], case['level'], case['h'], case['rev']), 'comb-baseline-in-several-pieces')
    if len(bp) > 1 and len(op) > 1 and len(bp) != len(op):
        ctx.tag('comb-outline-and-baseline-cut-differently')
        if not max(bp, key=lambda g: g.length).intersects(max(op, key=lambda g: g.area)):
            ctx.tag('comb-longest-baseline-piece-outside-largest-outline-piece')


def check_assign(case, ctx):
    from pero_ocr.core.layout import RegionLayout, PageLayout
    from pero_ocr.layout_engines.layout_helpers import assign_lines_to_regions
    if case.get('geos_fails'):
        return check_assign_geos(case, ctx)
    if case.get('history'):
        return check_assign_history(case, ctx)
    regs = [RegionLayout(f'r{i}', np.asarray(REGIONS[i], dtype=np.float64)) for i in case['regions']]
    inputs = make_inputs(case['lines'], dt=case.get('dt'))
    ctx.state((tuple(case['regions']), tuple(case['lines']), case.get('dt')))
    if case.get('dt'):
        ctx.tag('integer-or-float32-detections')
    out = assign_lines_to_regions([b for b, _ in inputs], [HEIGHTS] * len(inputs), [o for _, o in inputs], regs)
    ctx.executed()
    desc = f'regions {[REGIONS[i] for i in case["regions"]]}, baselines {[LINES[i] for i in case["lines"]]}' + (f' as {case["dt"]} arrays' if case.get('dt') else '')
    if not check_regions(out, inputs, ctx, f'{ID}/assign', desc, case):
        return
    n_lines = sum(len(r.lines) for r in out)
    ctx.outcome((tuple(case['regions']), n_lines))
    if n_lines >= 2 and len(case['regions']) >= 2:
        ctx.nontrivial((tuple(case['regions']), tuple(case['lines'])), 'several-regions-several-placed-lines')
    # ids are keys of the logits dictionary
    page = PageLayout(id='p', page_size=(100, 100))
    page.regions = out
    for ln in page.lines_iterator():
        ln.logits, ln.characters, ln.logit_coords = np.zeros((1, 2)), ['a', 'b'], [0, 1]
    import pickle
    d = pickle.loads(page.save_logits_bytes())
    if len(d) - 2 != n_lines:
        ctx.violation('line-ids-distinct', f'{ID}/assign/logits-dict-loses-lines', f'{desc}: {n_lines} lines but {len(d) - 2} keys')


# ------------------------------------------------------------------ LayoutExtractor / TextlineExtractorSimple with stub detectors
SCENARIOS = [
    # per rotation: (region polygon indices, line indices)
    {0: ([0, 9], [0, 3, 11]), 1: ([1], [4]), 3: ([8], [8])},
    {0: ([3], [5, 0]), 1: ([3], [5]), 3: ([], [])},
    {0: ([0, 7, 8], [0, 10, 4, 9]), 1: ([0], [0]), 3: ([0], [9])},
    # one text row detected as a chain of three fragments (A-B and B-C close, A-C far apart) + a separate line, inside the wide rectangle
    {0: ([1, 9], ['f0', 'f1', 'f2', 'f3']), 1: ([], []), 3: ([], [])},        # region 9 receives no line at all
    {0: ([1], ['z0']), 1: ([], []), 3: ([], []), 'heights': [0, 0]},           # a detection with zero heights (the height map is clamped at 0)
    # tilted text (4 degrees), lines far enough apart that MERGE_LINES has nothing to merge: every line comes back as it was detected
    {0: ([0], ['t0', 't1', 't2']), 1: ([], []), 3: ([], []), 'nothing_to_merge': True},
    # a stepped baseline with tall heights: the outline the library builds for it folds over itself (an invalid polygon), the line leaves the region
    {0: ([0], ['s0', 0]), 1: ([], []), 3: ([], []), 'heights': [9, 3]},
]
FRAGMENTS = {'s0': [(12, 24), (30, 24), (31, 30), (58, 30)], 't0': [(14, 15), (44, 17.1)], 't1': [(14, 27), (29, 28.05), (46, 29.24)], 't2': [(16, 40), (40, 41.68)],
             'z0': [(10, 30), (50, 30)], 'f0': [(8, 26), (14, 26.2)], 'f1': [(16, 26.2), (28, 26.6), (40, 26.2)], 'f2': [(42, 26.2), (50, 26)], 'f3': [(10, 36), (50, 36.4)]}


def line_points(i):
    return FRAGMENTS[i] if isinstance(i, str) else LINES[i]


class StubEngine:
    def __init__(self, scenario):
        self.s = scenario

    def detect(self, img, rot=0):
        from pero_ocr.layout_engines.layout_helpers import baseline_to_textline
        regs, lines = self.s.get(rot, ([], []))
        hts = self.s.get('heights', HEIGHTS)
        p = [np.asarray(REGIONS[i], dtype=np.float64) for i in regs]
        b = [np.asarray(line_points(i), dtype=np.float64) for i in lines]
        return p, b, [list(hts) for _ in b], [baseline_to_textline(x, hts) for x in b]

    def detect_lines(self, img, polygon):
        import shapely.geometry as sg
        from pero_ocr.layout_engines.layout_helpers import baseline_to_textline
        shape = ref_shape(polygon)
        b = [np.asarray(line_points(i), dtype=np.float64) for i in self.s[0][1] if shape.covers(sg.LineString(line_points(i)))]
        return b, [list(HEIGHTS) for _ in b], [baseline_to_textline(x, HEIGHTS) for x in b]


class BufferedStubEngine(StubEngine):
    """a detector that writes the line detections of every page into the same pre-allocated arrays (one set per orientation), a common pattern
    of inference engines; `shift` is where the content of the current page lies.  Region polygons and heights are new objects on every call"""
    def __init__(self, scenario):
        StubEngine.__init__(self, scenario)
        self.shift = np.zeros(2)
        self.buffers = {}

    def detect(self, img, rot=0):
        p, b, h, t = StubEngine.detect(self, img, rot)
        if rot not in self.buffers:
            self.buffers[rot] = ([np.zeros_like(x) for x in b], [np.zeros_like(x) for x in t])
        bb, tb = self.buffers[rot]
        for dst, x in zip(bb + tb, b + t):
            dst[:] = x + self.shift
        return [x + self.shift for x in p], list(bb), h, list(tb)


def check_extractor_pages(case, ctx):
    """ONE LayoutExtractor, two pages one after the other, a detector that re-uses its output arrays: the second page is judged like any page,
    and the first page - a finished result the caller holds - must still be what it was"""
    from pero_ocr.core.layout import PageLayout, RegionLayout
    dr, dl, ml, mo = case['extractor']
    scen = SCENARIOS[case['scenario']]
    ex = make_extractor(dr, dl, ml, mo)
    ex.engine = BufferedStubEngine(scen)
    rots = [0, 1, 3] if mo else [0]
    all_lines = sorted({i for r in rots for i in scen[r][1]}, key=str)
    base = make_inputs(all_lines, scen.get('heights', HEIGHTS))
    desc = (f'LayoutExtractor(detect_regions={bool(dr)}, detect_lines={bool(dl)}, merge_lines={bool(ml)}, multi_orientation={bool(mo)}), '
            f'stub detections per rotation {scen}, written into the same arrays for every page')
    key = f'{ID}/LayoutExtractor/' + ('regions-kept' if not dr else 'regions-detected') + ('+multi-orientation' if mo else '')
    ctx.state(('extractor-pages', tuple(case['extractor']), case['scenario']))
    pages, kept = [], None
    for k in range(case['pages']):
        shift = np.asarray(NEXT_PAGE_SHIFT) * k
        ex.engine.shift = shift
        page = PageLayout(id=f'p{k}', page_size=(120, 120))
        if not dr:
            page.regions = [RegionLayout(f'r{i:03d}', np.asarray(REGIONS[i], dtype=np.float64) + shift) for i in scen[0][0]]
        out = ex.process_page(np.zeros((120, 120, 3), np.uint8), page)
        ctx.executed()
        pages.append(out)
        if k:
            diff = first_difference(pages[0].regions, kept)
            if diff:
                ctx.violation('placed-line-lies-inside-region', f'{key}/kept-result/first-page-changes-when-the-detector-reuses-its-arrays-for-the-next-page',
                              f'{desc}: after page {k + 1} was processed by the same extractor, on page 1: {diff}', case)
                return
        inputs = [(b + shift, o + shift) for b, o in base]
        kk, dd = (key, desc) if not k else (f'{key}/page-{k + 1}-of-one-extractor', f'{desc}; page {k + 1} (content moved by {shift.tolist()})')
        if not (ids_only(out, ctx, kk, dd, case) if ml else check_regions(out.regions, inputs, ctx, kk, dd, case, check_presence=False)):
            return
        if not k:
            kept = snapshot(out.regions)
    ctx.outcome(('extractor-pages', [sum(len(r.lines) for r in p.regions) for p in pages]))
    if kept:
        ctx.tag('first-page-kept-while-the-extractor-processes-the-next-page')
    if len({sum(len(r.lines) for r in p.regions) for p in pages}) > 1:
        ctx.violation('wholly-inside-line-always-placed', f'{key}/pages-of-one-extractor/different-number-of-lines',
                      f'{desc}: {[sum(len(r.lines) for r in p.regions) for p in pages]} lines on pages with the same content (moved)', case)


def make_extractor(dr, dl, ml, mo):
    """a LayoutExtractor for the given options: the real constructor on a configuration section, with only the layout network and the worker
    pool replaced; if the constructor cannot be driven that way, the attributes it sets are set by hand"""
    from pero_ocr.document_ocr import page_parser
    yn = lambda x: 'yes' if x else 'no'
    try:
        import configparser
        import unittest.mock
        import torch
        cfg = configparser.ConfigParser()
        cfg['LAYOUT'] = {'METHOD': 'LAYOUT_CNN', 'MODEL_PATH': 'stub-model', 'DETECT_REGIONS': yn(dr), 'DETECT_LINES': yn(dl), 'MERGE_LINES': yn(ml),
                         'MULTI_ORIENTATION': yn(mo), 'DETECT_STRAIGHT_LINES_IN_REGIONS': 'no', 'ADJUST_HEIGHTS': 'no', 'ADJUST_BASELINES': 'no',
                         'USE_CPU': 'yes', 'DOWNSAMPLE': '4', 'DETECTION_THRESHOLD': '0.2', 'MAX_MEGAPIXELS': '5'}
        with unittest.mock.patch.object(page_parser, 'LayoutEngine', lambda **kw: None), \
                unittest.mock.patch.object(page_parser, 'Pool', lambda *a, **kw: None):
            ex = page_parser.LayoutExtractor(cfg['LAYOUT'], torch.device('cpu'))
        if (ex.detect_regions, ex.detect_lines, ex.merge_lines, ex.multi_orientation) != (bool(dr), bool(dl), bool(ml), bool(mo)):
            raise RuntimeError('unexpected extractor')
        return ex
    except Exception:  # noqa
        ex = object.__new__(page_parser.LayoutExtractor)
        ex.detect_regions, ex.detect_lines, ex.merge_lines, ex.multi_orientation = bool(dr), bool(dl), bool(ml), bool(mo)
        ex.detect_straight_lines_in_regions = ex.adjust_heights = ex.adjust_baselines = False
        return ex


def check_extractor(case, ctx):
    from pero_ocr.core.layout import PageLayout, RegionLayout
    from pero_ocr.document_ocr.page_parser import LayoutExtractor
    if case.get('pages'):
        return check_extractor_pages(case, ctx)
    dr, dl, ml, mo = case['extractor']
    scen = SCENARIOS[case['scenario']]

    def run():
        ex = make_extractor(dr, dl, ml, mo)
        ex.engine = StubEngine(scen)
        page = PageLayout(id='p', page_size=(100, 100))
        if not dr:
            page.regions = [RegionLayout(f'r{i:03d}', np.asarray(REGIONS[i], dtype=np.float64)) for i in scen[0][0]]
        return ex.process_page(np.zeros((100, 100, 3), np.uint8), page)
    rots = [0, 1, 3] if mo else [0]
    all_lines = sorted({i for r in rots for i in scen[r][1]}, key=str)
    inputs = make_inputs(all_lines, scen.get('heights', HEIGHTS))
    desc = (f'LayoutExtractor(detect_regions={bool(dr)}, detect_lines={bool(dl)}, merge_lines={bool(ml)}, multi_orientation={bool(mo)}), '
            f'stub detections per rotation {scen}')
    key = f'{ID}/LayoutExtractor/' + ('regions-kept' if not dr else 'regions-detected') + ('+multi-orientation' if mo else '')
    if case.get('geos_fails'):
        # ONE call of the library to the geometry library fails (all fault points in turn): the page may fail; a page that is returned
        # has distinct ids and every line inside its region (and, without merging, a clipped piece of a detection - the longest one)
        ctx.state(('extractor', tuple(case['extractor']), case['scenario'], 'geos', case['geos_fails'], bool(case.get('geos_props'))))
        for k, site, (what, val) in geos_injector(case).explore(run):
            ctx.executed()
            if k is None:
                if what == 'raised':
                    return
                continue
            ctx.tag('geos-failure-injected-in-extractor')
            if what == 'raised':
                ctx.outcome(('extractor-geos', site[2], 'raised'))
                continue
            ctx.tag('page-returned-after-geos-failure')
            ctx.outcome(('extractor-geos', site[2], sum(len(r.lines) for r in val.regions)))
            kk, dd = f'{key}/after-failed-{site[2]}', f'{desc}; call #{k} of the library to the geometry library ({site[2]} in {site[1]}) raised {case["geos_fails"]}'
            if not (ids_only(val, ctx, kk, dd, case) if ml else check_regions(val.regions, inputs, ctx, kk, dd, case, check_presence=False)):
                return
        return
    ctx.state(('extractor', tuple(case['extractor']), case['scenario']))
    out = run()
    ctx.executed()
    # merged lines are re-fitted curves, not pieces of single detections -> containment/ids only
    if ml and scen.get('nothing_to_merge'):
        ok = ids_only(out, ctx, key, desc, case) and check_regions(out.regions, inputs, ctx, key + '/merge-lines-nothing-to-merge', desc, case, check_presence=False)
        if ok:
            ctx.tag('merge-lines-on-tilted-text-without-merging')
    else:
        ok = check_regions(out.regions, inputs, ctx, key, desc, case, check_presence=False) if not ml else ids_only(out, ctx, key, desc, case)
    if ok and ml and dl and not mo:      # (with several orientations a detection only belongs to the regions of its own pass)
        # merging may join detections, but a detection lying wholly inside a region must still be covered by a line of that region
        import shapely.geometry as sg
        for reg in out.regions:
            shape = ref_shape(reg.polygon)
            for i, (b, o) in zip(all_lines, inputs):
                bl_in = sg.LineString(b)
                if shape.covers(bl_in) and not shape.boundary.intersects(bl_in) and bl_in.length > 2:
                    if not any(sg.LineString(ln.baseline).buffer(2.5).covers(bl_in) for ln in reg.lines):
                        ctx.violation('wholly-inside-line-always-placed', f'{key}/merge-lines/inside-line-lost',
                                      f'{desc}: detection {np.asarray(b).tolist()} lies wholly inside region {reg.id} but no line of that region covers it '
                                      f'(lines: {[np.asarray(ln.baseline).round(1).tolist() for ln in reg.lines]})', case)
                        return
        ctx.tag('merge-lines-coverage')
    if ok:
        ctx.outcome(('extractor', sum(len(r.lines) for r in out.regions)))
        if dl and sum(len(r.lines) for r in out.regions) > 1:
            ctx.nontrivial(('extractor', tuple(case['extractor']), case['scenario']), 'extractor-pages-with-lines')


def ids_only(page, ctx, key, desc, case):
    import shapely.geometry as sg
    ids = [l.id for l in page.lines_iterator()]
    if len(set(ids)) != len(ids):
        ctx.violation('line-ids-distinct', f'{key}/duplicate-line-ids', f'{desc}: ids {sorted({i for i in ids if ids.count(i) > 1})} occur more than once', case)
        return False
    for reg in page.regions:
        shape = ref_shape(reg.polygon)
        for ln in reg.lines:
            if not shape.buffer(1e-4).covers(sg.LineString(ln.baseline)):
                ctx.violation('placed-line-lies-inside-region', f'{key}/baseline-outside-region', f'{desc}: line {ln.id}', case)
                return False
    return True


def check_simple(case, ctx):
    from pero_ocr.core.layout import PageLayout, RegionLayout
    from pero_ocr.document_ocr.page_parser import TextlineExtractorSimple
    scen = SCENARIOS[case['simple']]
    try:
        import configparser
        cfg = configparser.ConfigParser()
        cfg['L'] = {'ADAPTIVE_THRESHOLD': '21', 'BLOCK_SIZE': '11', 'MINIMUM_LENGTH': '5', 'IGNORED_BORDER_PIXELS': '2'}
        ex = TextlineExtractorSimple(cfg['L'])
    except Exception:  # noqa
        ex = object.__new__(TextlineExtractorSimple)
    ex.engine = StubEngine(scen)
    page = PageLayout(id='p', page_size=(100, 100))
    page.regions = [RegionLayout(f'r{i:03d}', np.asarray(REGIONS[i], dtype=np.float64)) for i in scen[0][0]]
    out = ex.process_page(np.zeros((100, 100, 3), np.uint8), page)
    ctx.executed()
    ctx.state(('simple', case['simple']))
    ids_only(out, ctx, f'{ID}/TextlineExtractorSimple', f'TextlineExtractorSimple, stub detections {scen[0]}', case)


def check_case(case, ctx):
    if 'extractor' in case:
        check_extractor(case, ctx)
    elif 'simple' in case:
        check_simple(case, ctx)
    elif 'comb' in case:
        check_comb(case, ctx)
    else:
        check_assign(case, ctx)


def describe(tier):
    return {
        'rule': 'all sets of 1..max_regions regions (10-polygon alphabet) x all sets of 1..3 baselines (13-line alphabet) through '
                'assign_lines_to_regions; 16 option combinations x 3 stub-detection scenarios through LayoutExtractor.process_page; 3 through '
                'TextlineExtractorSimple. state = distinct configuration. Non-trivial: >= 2 regions with >= 2 placed lines; counters for multi-piece '
                'intersections and wholly-inside lines. Fault sweep: every call of the library to a GEOS operation fails once (two error classes), '
                'counted per fault point, per returned result, and per returned result where a baseline runs through the hull of a concave region outside it. '
                'Histories (edit-placed / refill, two pages of one extractor with a buffer-re-using stub detector) and the comb sub-sweep (notches of two depths '
                'x baseline levels x height pairs) as described in the module docstring; counters for kept results, second calls and for the comb corner '
                'where the longest baseline piece lies outside the largest outline piece.',
        'bounds': BOUNDS[tier], 'alphabets': {'regions': REGIONS, 'baselines': LINES, 'heights': HEIGHTS, 'geos_errors': GEOS_ERRORS, 'histories': HISTORIES,
                                             'comb': {'slots': COMB_SLOTS, 'tips': COMB_TIPS, 'levels': COMB_LEVELS, 'heights': COMB_HEIGHTS}},
        'assumptions': ['invalid region polygons are judged against their convex hull', 'merged lines (MERGE_LINES) are only checked for containment and ids',
                        'after an injected failure of a geometry operation any exception is accepted and no line is demanded; everything placed is judged as always',
                        'histories compare what the caller holds with copies taken before the next action (never the arguments); the caller edits only baseline and outline arrays of placed lines, the stub detector re-uses only its baseline and outline arrays (heights and region polygons are new objects)'],
        'min_nontrivial': 100,
        'required_tags': ['merge-lines-on-tilted-text-without-merging', 'integer-or-float32-detections', 'several-regions-several-placed-lines', 'several-pieces', 'wholly-inside', 'extractor-pages-with-lines',
                          'merge-lines-coverage', 'geos-failure-injected', 'result-returned-after-geos-failure',
                          'result-returned-after-geos-failure-baseline-in-hull-of-concave-region-outside-it', 'geos-failure-injected-in-extractor',
                          'page-returned-after-geos-failure',
                          'placed-line-edited-in-place-others-kept', 'second-call-same-detection-objects', 'first-result-kept-while-detection-arrays-are-refilled',
                          'history-with-several-placed-lines', 'first-page-kept-while-the-extractor-processes-the-next-page',
                          'comb-baseline-in-several-pieces', 'comb-outline-and-baseline-cut-differently', 'comb-longest-baseline-piece-outside-largest-outline-piece'],
    }
