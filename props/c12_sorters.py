"""C12 - Region sorting only permutes regions and always terminates.

Space (configuration lattice): axis-parallel boxes with corners on {0,10,20}^2 including zero-width / zero-height ones (36 boxes):
ALL ordered lists of 0..3 boxes (with repetitions -> identical regions), lists of 4 (and 5) boxes over a 9-box sub-alphabet chosen to
overlap in both axes (the recursive decouple fallback), lists over a polygon alphabet (triangles, L, concave, nested); regions
carrying 0..3 text lines each (4 patterns) with de-skew angle 0 / +3 / -3 degrees; both sorters; FakeIntersectionParameter in {0, 0.1, 0.5},
ImageWidthDenominator in {1, 10, 100}.  Every call runs under a recursion limit and a 5 s alarm.
Environment of the call (PAGE_INFO): what the sorter is told about the page - image and page_size, page_size only (image None), neither
(image None and the (0, 0) page_size of a hand-built PageLayout), image only - on the 2-box lists, 2-polygon lists and large layouts.

Oracle: the output region list is a permutation of the input OBJECTS, each with its lines / ids / text untouched; polygons equal the
originals as shapes (1e-6, closing point ignored); no exception (0 and 1 regions included).
"""
import copy
import itertools
import sys

import numpy as np

ID = 'C12'

MANIFEST = dict(
    technique='explicit-state enumeration of ordered region lists over a box / polygon lattice x sorter parameters on the real SmartRegionSorter and NaiveRegionSorter under recursion and time limits; permutation/identity oracle',
    text='Bounded exhaustive: every ordered list of 0-2 boxes over the 36-box lattice (incl. degenerate and identical boxes), every list of 3 boxes over a 16-box sub-lattice (quick) / all 36 (thorough), every list of 4 boxes over 6 (quick) / 4-5 boxes over 9 (thorough) mutually overlapping boxes, every list of 1-3 polygons over a 6-polygon alphabet, each with de-skew 0 / +-3 degrees, for the smart sorter with 3 intersection parameters and the naive sorter with 3 width denominators (about 5e4 sorter calls quick, 7e5 thorough). Each call must terminate (recursion limit 400, 5 s alarm), not raise, and return exactly the input region objects, each once, with lines, ids, text and (up to de-skew round-off) geometry unchanged. Added sub-sweeps: 0-3 lines per region in four patterns, single-channel page images, int32 coordinates, line ids that are not unique on the page or absent, layouts of 12-16 regions, and a long-lived sorter per configuration compared with a fresh one. A 40-level nested spiral of regions. Environment of process_page: besides "image and page_size given", the smart sorter is run with no image (page_size known) and with neither image nor page_size (a hand-built PageLayout reports (0, 0)) on every list of 2 boxes x de-skew +-3 degrees, every list of 2 polygons and the large layouts, and both sorters with an image but no page_size; the same oracle applies (geometry back in place within 1e-6).',
    note='Lists longer than 5 regions are not explored; ImageWidthDenominator values that make the cluster radius 0 are a configuration error and excluded. The naive sorter is only run where an image is given (its cluster radius is defined as a fraction of the image width).',
    ref='3/C12')

XS = [(0, 0), (0, 10), (0, 20), (10, 10), (10, 20), (20, 20)]
BOXES = [(x0, y0, x1, y1) for (x0, x1) in XS for (y0, y1) in XS]
OVERLAPPING = [(0, 0, 20, 10), (0, 0, 10, 20), (10, 0, 20, 20), (0, 10, 20, 20), (0, 0, 20, 20), (5, 5, 15, 15), (0, 5, 20, 15), (5, 0, 15, 20), (8, 8, 25, 25)]
POLYS = [
    [(0, 0), (20, 0), (0, 20)], [(20, 0), (20, 20), (0, 20)],                  # two triangles forming a square
    [(0, 0), (30, 0), (30, 10), (10, 10), (10, 30), (0, 30)],                  # L
    [(12, 12), (30, 12), (30, 30), (12, 30)],                                  # sits in the notch of the L
    [(0, 0), (40, 0), (40, 40), (20, 10), (0, 40)],                            # concave
    [(15, 2), (25, 2), (25, 8), (15, 8)],                                      # nested in the concave one
]
SKEWS = [0.0, 3.0, -3.0]
INTERSECT = [0.0, 0.1, 0.5]
DENOMS = [1, 10, 100]
# what the caller tells the sorter about the page (the environment of process_page): the page image and / or PageLayout.page_size.
# 'neither' is a layout built by hand or imported from a source without page size (PageLayout() reports (0, 0)) sorted by a caller
# that has no image; the naive sorter takes its cluster radius from the image width, so it is only run where an image is given.
PAGE_INFO = ['image-and-page-size', 'page-size-only', 'neither', 'image-only']
BOUNDS = {'quick': dict(deep=[4], deep_alpha=6, three=16), 'thorough': dict(deep=[4, 5], deep_alpha=9, three=36)}
BOUNDS['replay'] = BOUNDS['quick']


def setup(tier):
    from sklearn.cluster import DBSCAN  # noqa  (import before forking)


def shards(tier):
    out = [{'kind': 'boxes', 'n': 0}, {'kind': 'boxes', 'n': 1}]
    for f in range(len(BOXES)):
        out.append({'kind': 'boxes', 'n': 2, 'first': f})
    for f in range(len(POLYS)):
        out.append({'kind': 'polys', 'first': f})
    for f in three_alphabet(tier):
        out.append({'kind': 'boxes', 'n': 3, 'first': f})
    for n in BOUNDS[tier]['deep']:
        for f in range(BOUNDS[tier]['deep_alpha']):
            for g in (range(BOUNDS[tier]['deep_alpha']) if n == 5 else [None]):
                out.append({'kind': 'deep', 'n': n, 'first': f, 'second': g})
    out.append({'kind': 'many'})
    return out


def three_alphabet(tier):
    k = BOUNDS[tier]['three']
    if k >= len(BOXES):
        return list(range(len(BOXES)))
    # sub-lattice that keeps a point box, zero-width, zero-height, full, and partially overlapping boxes
    keep = [0, 1, 2, 6, 7, 8, 10, 12, 13, 14, 16, 21, 26, 28, 29, 35]
    return keep[:k]


def run_shard(shard, ctx, tier):
    from mc.core import guarded_check
    mod = sys.modules[__name__]
    if shard['kind'] == 'boxes':
        n = shard['n']
        firsts = [shard['first']] if 'first' in shard else (range(len(BOXES)) if n else [None])
        alpha = three_alphabet(tier) if n == 3 else range(len(BOXES))
        for f in firsts:
            for rest in itertools.product(alpha, repeat=max(n - 1, 0)):
                lst = ([f] if f is not None else []) + list(rest)
                guarded_check(mod, {'boxes': lst, 'skew': 0}, ctx)
                if n == 2 and lst[0] % 5 == 0:
                    guarded_check(mod, {'boxes': lst, 'skew': 0, 'gray': 1}, ctx)      # single-channel page image
                if n == 2 and lst[0] % 5 == 1:
                    for sk in range(3):                                                # integer-pixel coordinates held in int32 arrays
                        guarded_check(mod, {'boxes': lst, 'skew': sk, 'ints': 1}, ctx)
                if n == 2 and lst[0] % 5 == 3:
                    for sk in range(3):            # baselines that do not run left to right (right-to-left text, a repeated point)
                        guarded_check(mod, {'boxes': lst, 'skew': sk, 'rtl': 1}, ctx)
                if n == 2 and lst[0] % 5 == 2:
                    for sk in range(3):            # line ids that are only unique within their region ('l0', 'l1', ...) or absent (ALTO import)
                        for lid in (1, 2):
                            guarded_check(mod, {'boxes': lst, 'skew': sk, 'lineids': lid}, ctx)
                if n == 2:
                    for sk in (1, 2):              # the sorter knows neither the image nor the page size / only the page size
                        guarded_check(mod, {'boxes': lst, 'skew': sk, 'lv': (sum(lst) + sk) % 3, 'env': 2}, ctx)
                    guarded_check(mod, {'boxes': lst, 'skew': 1 + sum(lst) % 2, 'lv': lst[0] % 3, 'env': 1}, ctx)
                if n == 2 and lst[0] % 5 == 4:
                    for sk in range(3):            # an image, but a layout without page size
                        guarded_check(mod, {'boxes': lst, 'skew': sk, 'env': 3}, ctx)
                if n == 2:
                    for sk in (1, 2):
                        guarded_check(mod, {'boxes': lst, 'skew': sk}, ctx)
                        guarded_check(mod, {'boxes': lst, 'skew': sk, 'lv': 1 + (sum(lst) + sk) % 3}, ctx)
    elif shard['kind'] == 'many':
        for layout in range(len(MANY_LAYOUTS)):
            for sk in range(3):
                for lv in (0, 2):
                    guarded_check(mod, {'many': layout, 'skew': sk, 'lv': lv}, ctx)
                guarded_check(mod, {'many': layout, 'skew': sk, 'lv': 0, 'env': 2}, ctx)
                guarded_check(mod, {'many': layout, 'skew': sk, 'lv': 2, 'env': 1 + 2 * (layout % 2)}, ctx)
    elif shard['kind'] == 'deep':
        n = shard['n']
        pre = [shard['first']] + ([shard['second']] if shard['second'] is not None else [])
        for rest in itertools.product(range(BOUNDS[tier]['deep_alpha']), repeat=n - len(pre)):
            guarded_check(mod, {'deep': pre + list(rest), 'skew': (sum(rest) % 3), 'lv': (sum(rest) // 3) % 4}, ctx)
    else:
        for n in (1, 2, 3):
            for rest in itertools.product(range(len(POLYS)), repeat=n - 1):
                for sk in range(3):
                    for lv in range(4):
                        guarded_check(mod, {'polys': [shard['first']] + list(rest), 'skew': sk, 'lv': lv}, ctx)
                    if n == 2:
                        for env in (1, 2, 3):
                            guarded_check(mod, {'polys': [shard['first']] + list(rest), 'skew': sk, 'lv': (sk + env) % 3, 'env': env}, ctx)


LINE_COUNTS = [[2, 2, 2, 2, 2], [1, 0, 1, 0, 1], [0, 3, 1, 0, 2], [0, 0, 0, 0, 0]]      # text lines per region, by line variant


def many_boxes(layout):
    """pages with 12-40 regions (ids r10.. : more than one digit), as (x0, y0, x1, y1) boxes (on the 1000 x 100 page, except the spiral)"""
    name = MANY_LAYOUTS[layout]
    if name == 'two-columns-of-seven':
        return [(40 + 480 * c, 4 + 13 * r, 460 + 480 * c, 14 + 13 * r) for r in range(7) for c in range(2)]
    if name == 'grid-4x4-shuffled':
        cells = [(20 + 240 * c, 5 + 23 * r, 230 + 240 * c, 22 + 23 * r) for r in range(4) for c in range(4)]
        return [cells[(5 * i + 3) % 16] for i in range(16)]
    if name == 'staircase-overlapping':
        return [(20 + 60 * i, 5 + 6 * i, 200 + 60 * i, 25 + 6 * i) for i in range(12)]
    if name == 'nested-spiral-of-40':
        # bands cut in turn from the top, left, bottom and right of what is left (25 % of it, 3 % gap): 40 levels of nesting
        out, (x0, y0, x1, y1) = [], (0.0, 0.0, 20000.0, 20000.0)
        for k in range(39):
            w, h = x1 - x0, y1 - y0
            if k % 4 == 0:
                out.append((x0, y0, x1, y0 + 0.25 * h)); y0 += 0.28 * h
            elif k % 4 == 1:
                out.append((x0, y0, x0 + 0.25 * w, y1)); x0 += 0.28 * w
            elif k % 4 == 2:
                out.append((x0, y1 - 0.25 * h, x1, y1)); y1 -= 0.28 * h
            else:
                out.append((x1 - 0.25 * w, y0, x1, y1)); x1 -= 0.28 * w
        return out + [(x0, y0, x1, y1)]
    return [(30, 3 + 7 * i, 900, 8 + 7 * i) for i in range(13)][::-1]            # 'one-column-bottom-up'


MANY_LAYOUTS = ['two-columns-of-seven', 'grid-4x4-shuffled', 'staircase-overlapping', 'one-column-bottom-up', 'nested-spiral-of-40']


def build_page(polygons, skew_deg, lv=0, ints=False, lineids=0, rtl=False, env=0):
    from pero_ocr.core.layout import PageLayout, RegionLayout, TextLine
    page = PageLayout(id='p', page_size=(100, 1000)) if PAGE_INFO[env] in ('image-and-page-size', 'page-size-only') else PageLayout(id='p')
    for k, poly in enumerate(polygons):
        reg = RegionLayout(f'r{k}', np.asarray(poly, dtype=np.float64), region_type='paragraph')
        reg.transcription = f'text {k}'
        pts = np.asarray(poly, dtype=np.float64)
        x0, x1, y = pts[:, 0].min(), pts[:, 0].max(), pts[:, 1].mean()
        dy = np.tan(np.radians(skew_deg)) * max(x1 - x0, 1.0)
        for j in range(LINE_COUNTS[lv][k % 5]):
            reg.lines.append(TextLine(id=f'r{k}-l{j}', index=j, baseline=np.asarray([[x0, y + 3 * j], [max(x1, x0 + 1.0), y + 3 * j + dy]]),
                                      polygon=np.asarray([[x0, y - 2], [max(x1, x0 + 1.0), y - 2 + dy], [max(x1, x0 + 1.0), y + 2 + dy], [x0, y + 2]]),
                                      heights=[2, 1], transcription=f'line {k}.{j}'))
        page.regions.append(reg)
    if rtl:
        for reg in page.regions:
            for j, l in enumerate(reg.lines):
                if j % 2 == 0:
                    l.baseline = l.baseline[::-1].copy()                                   # right to left
                else:
                    l.baseline = np.concatenate([l.baseline[:1], l.baseline[:1], l.baseline[1:]])      # a repeated first point
    if lineids:
        for reg in page.regions:
            for j, l in enumerate(reg.lines):
                l.id = f'l{j}' if lineids == 1 else None
    if ints:
        for reg in page.regions:
            reg.polygon = np.round(reg.polygon).astype(np.int32)
            for l in reg.lines:
                l.baseline = np.round(l.baseline).astype(np.int32)
                l.polygon = np.round(l.polygon).astype(np.int32)
    return page


def snapshot(page):
    return [(id(r), r.id, r.region_type, r.transcription, np.asarray(r.polygon, dtype=float).copy(),
             [(id(l), l.id, l.index, l.transcription, np.asarray(l.baseline, dtype=float).copy(), np.asarray(l.polygon, dtype=float).copy())
              for l in r.lines]) for r in page.regions]


def same_ring(a, b, tol):
    a, b = np.asarray(a, dtype=float), np.asarray(b, dtype=float)
    if len(a) > 1 and np.allclose(a[0], a[-1]):
        a = a[:-1]
    if len(b) > 1 and np.allclose(b[0], b[-1]):
        b = b[:-1]
    if a.shape != b.shape:
        return False
    n = len(a)
    for shift in range(n):
        if np.abs(np.roll(b, shift, axis=0) - a).max() <= tol or np.abs(np.roll(b[::-1], shift, axis=0) - a).max() <= tol:
            return True
    return False


_SORTERS = {}


def run_sorter(name, param, page, ctx, gray=False, shared=False, env=0):
    import configparser
    from pero_ocr.layout_engines.smart_sorter import SmartRegionSorter
    from pero_ocr.layout_engines.naive_sorter import NaiveRegionSorter
    cfg = configparser.ConfigParser()
    if shared and (name, param) in _SORTERS:
        sorter = _SORTERS[(name, param)]
    elif name == 'smart':
        cfg['S'] = {'FakeIntersectionParameter': str(param)}
        sorter = SmartRegionSorter(cfg['S'])
    else:
        cfg['S'] = {'ImageWidthDenominator': str(param)}
        sorter = NaiveRegionSorter(cfg['S'])
    if shared:
        _SORTERS[(name, param)] = sorter
    img = np.zeros((100, 1000, 3), dtype=np.uint8) if not gray else np.zeros((100, 1000), dtype=np.uint8)
    if PAGE_INFO[env] in ('page-size-only', 'neither'):
        img = None
    old = sys.getrecursionlimit()
    sys.setrecursionlimit(400)
    try:
        with ctx.time_limit(5.0), np.errstate(all='ignore'):
            return sorter.process_page(img, page)
    finally:
        sys.setrecursionlimit(old)


def check_case(case, ctx):
    from mc.core import CaseTimeout
    if 'many' in case:
        polygons = [[(x0, y0), (x1, y0), (x1, y1), (x0, y1)] for (x0, y0, x1, y1) in many_boxes(case['many'])]
        what = f'{len(polygons)} boxes, layout {MANY_LAYOUTS[case["many"]]}: {many_boxes(case["many"])}'
        ctx.tag('more-than-nine-regions')
    elif 'boxes' in case:
        polygons = [[(x0, y0), (x1, y0), (x1, y1), (x0, y1)] for (x0, y0, x1, y1) in (BOXES[i] for i in case['boxes'])]
        what = f'boxes {[BOXES[i] for i in case["boxes"]]}'
    elif 'deep' in case:
        polygons = [[(x0, y0), (x1, y0), (x1, y1), (x0, y1)] for (x0, y0, x1, y1) in (OVERLAPPING[i] for i in case['deep'])]
        what = f'boxes {[OVERLAPPING[i] for i in case["deep"]]}'
    else:
        polygons = [POLYS[i] for i in case['polys']]
        what = f'polygons {polygons}'
    skew = SKEWS[case['skew']]
    env = case.get('env', 0)
    ctx.state((what, skew, case.get('lv', 0), case.get('gray', 0), case.get('ints', 0), case.get('lineids', 0), case.get('rtl', 0), env))
    if case.get('rtl'):
        ctx.tag('baselines-not-left-to-right')
    if case.get('lineids'):
        ctx.tag('line-ids-not-unique-on-the-page')
    if case.get('ints'):
        ctx.tag('integer-coordinate-arrays')
    configs = [('smart', p) for p in INTERSECT] + [('naive', d) for d in DENOMS]
    if PAGE_INFO[env] in ('page-size-only', 'neither'):
        configs = [c for c in configs if c[0] == 'smart']      # the naive sorter's radius is a fraction of the image width: it needs the image
    if 'cfg' in case:
        configs = [tuple(case['cfg'])]
    for name, param in configs:
        sub = dict(case, cfg=[name, param])
        K = f'{ID}/{name}'
        page = build_page(polygons, skew, case.get('lv', 0), ints=bool(case.get('ints')), lineids=case.get('lineids', 0), rtl=bool(case.get('rtl')), env=env)
        before = snapshot(page)
        desc = f'{name} sorter (parameter {param}), {what}, line skew {skew} deg, lines per region {LINE_COUNTS[case.get("lv", 0)][:len(polygons)]}' \
               + (f', the sorter is given {PAGE_INFO[env]} (image {"None" if PAGE_INFO[env] in ("page-size-only", "neither") else "given"}, page_size {tuple(page.page_size)})' if env else '')
        envkey = f'/{PAGE_INFO[env]}' if env else ''
        try:
            out = run_sorter(name, param, page, ctx, gray=bool(case.get('gray')), env=env)
        except CaseTimeout:
            ctx.violation('terminates', f'{K}/does-not-terminate', f'{desc}: no result within 5 s', sub)
            continue
        except RecursionError:
            ctx.violation('terminates', f'{K}/unbounded-recursion', f'{desc}: recursion limit exceeded', sub)
            continue
        except Exception as e:  # noqa
            import traceback
            fn = traceback.extract_tb(e.__traceback__)[-1].name
            kind = 'empty-page' if not polygons else ('single-region' if len(polygons) == 1 else 'regions')
            ctx.violation('never-raises', f'{K}/raises/{type(e).__name__}@{fn}/{kind}', f'{desc}: {type(e).__name__}: {e}', sub)
            continue
        finally:
            ctx.executed()
        after = snapshot(out)
        ids_b = [s[0] for s in before]
        ids_a = [s[0] for s in after]
        if sorted(ids_a) != sorted(ids_b):
            lost = len(set(ids_b) - set(ids_a))
            dup = len(ids_a) - len(set(ids_a))
            ctx.violation('exactly-the-input-regions-each-once', f'{K}/not-a-permutation',
                          f'{desc}: {len(ids_b)} regions in, {len(ids_a)} out ({lost} lost, {dup} duplicated); order of ids out: {[s[1] for s in after]}', sub)
            continue
        tol = 1e-6 if skew == 0 or name == 'naive' else 1e-6
        bad = None
        bmap = {s[0]: s for s in before}
        for s in after:
            b = bmap[s[0]]
            if s[1:4] != b[1:4]:
                bad = f'region {b[1]}: id/type/text changed to {s[1:4]}'
                break
            if not same_ring(b[4], s[4], tol):
                bad = f'region {b[1]}: polygon {b[4].tolist()} became {s[4].round(6).tolist()}'
                break
            if [x[:4] for x in s[5]] != [x[:4] for x in b[5]]:
                bad = f'region {b[1]}: its lines changed'
                break
            for lb, la in zip(b[5], s[5]):
                if lb[4].shape != la[4].shape or not (np.abs(lb[4] - la[4]).max() <= tol) or not same_ring(lb[5], la[5], tol):
                    bad = f'line {lb[1]}: geometry changed: baseline {lb[4].tolist()} -> {la[4].round(6).tolist()}'
                    break
            if bad:
                break
        if bad:
            ctx.violation('regions-intact', f'{K}/region-content-changed{envkey}', f'{desc}: {bad}', sub)
            continue
        # history: a sorter object that has sorted many other pages before orders this page like a fresh one
        if len(polygons) >= 2 and len(polygons) <= 3:
            try:
                out2 = run_sorter(name, param, build_page(polygons, skew, case.get('lv', 0), ints=bool(case.get('ints')), lineids=case.get('lineids', 0), rtl=bool(case.get('rtl')), env=env), ctx,
                                  gray=bool(case.get('gray')), shared=True, env=env)
                order2 = [r.id for r in out2.regions]
            except CaseTimeout:
                order2 = 'no result within 5 s'
            except Exception as e:  # noqa
                order2 = f'{type(e).__name__}: {e}'
            ctx.executed()
            if order2 != [s[1] for s in after]:
                ctx.violation('exactly-the-input-regions-each-once', f'{K}/long-lived-sorter-differs-from-a-fresh-one',
                              f'{desc}: a fresh sorter orders the regions {[s[1] for s in after]}, one that has sorted other pages before: {order2}', sub)
                continue
        # history on ONE sorter object: this page, then the same regions WITHOUT any text line (a page whose line detection found nothing), then
        # this page again - every page must come back with its regions intact, whatever the sorter saw before
        if name == 'smart' and 2 <= len(polygons) <= 3 and env == 0 and not case.get('gray'):
            import configparser
            from pero_ocr.layout_engines.smart_sorter import SmartRegionSorter
            cfg = configparser.ConfigParser()
            cfg['S'] = {'FakeIntersectionParameter': str(param)}
            one = SmartRegionSorter(cfg['S'])
            img = np.zeros((100, 1000, 3), dtype=np.uint8)
            bad_h = None
            for step, with_lines in enumerate((True, False, True)):
                pg = build_page(polygons, skew, case.get('lv', 0), ints=bool(case.get('ints')), lineids=case.get('lineids', 0), rtl=bool(case.get('rtl')), env=env)
                if not with_lines:
                    for r in pg.regions:
                        r.lines = []
                b_h = snapshot(pg)
                old_rl = sys.getrecursionlimit()
                sys.setrecursionlimit(400)
                try:
                    with ctx.time_limit(5.0), np.errstate(all='ignore'):
                        o_h = one.process_page(img, pg)
                    a_h = snapshot(o_h)
                except CaseTimeout:
                    bad_h = f'page {step + 1}: no result within 5 s'
                except Exception as e:  # noqa
                    bad_h = f'page {step + 1}: {type(e).__name__}: {e}'
                finally:
                    sys.setrecursionlimit(old_rl)
                ctx.executed()
                if bad_h:
                    break
                bm = {x[0]: x for x in b_h}
                if sorted(x[0] for x in a_h) != sorted(bm):
                    bad_h = f'page {step + 1}: {len(b_h)} regions in, {len(a_h)} out'
                    break
                for x in a_h:
                    if not same_ring(bm[x[0]][4], x[4], 1e-6) or any(la[4].shape != lb[4].shape or not (np.abs(la[4] - lb[4]).max() <= 1e-6)
                                                                    for lb, la in zip(bm[x[0]][5], x[5])):
                        bad_h = (f'page {step + 1} ({"with" if with_lines else "without"} text lines): region {x[1]} polygon {bm[x[0]][4].tolist()} '
                                 f'came back as {x[4].round(4).tolist()}')
                        break
                if bad_h:
                    break
            if bad_h:
                ctx.violation('regions-intact', f'{K}/one-sorter-page-with-lines-then-the-regions-without-lines/region-content-changed',
                              f'{desc}; one sorter object is given this page, then the same regions without text lines, then this page again: {bad_h}', sub)
                continue
            ctx.tag('page-without-lines-after-a-page-with-lines-on-one-sorter')
            if skew != 0:
                ctx.tag('page-without-lines-after-a-slanted-page-on-one-sorter')
        ctx.outcome((name, tuple(s[1] for s in after)))
        if [s[1] for s in after] != [s[1] for s in before]:
            ctx.nontrivial((what, skew, name, param), 'order-actually-changed')
        if skew != 0 and name == 'smart' and len(polygons) >= 2:
            ctx.tag('de-skew-rotation-applied')
            if env:
                ctx.tag('de-skew-with-' + PAGE_INFO[env])
        if env:
            ctx.tag('sorter-given-' + PAGE_INFO[env])
    if 'deep' in case:
        ctx.tag('mutually-overlapping-lists')
    if len(polygons) == 3 and 'boxes' in case and case['boxes'][0] == 14 and case['boxes'][1] == 5:
        ctx.sample({'boxes': [BOXES[i] for i in case['boxes']], 'last_order': [s[1] for s in after] if 'after' in dir() else None})


def describe(tier):
    return {
        'rule': 'all ordered lists of 0..3 boxes (36-box lattice, repetitions allowed), lists of 4(/5) boxes over 9 mutually overlapping boxes, lists of 1..3 '
                'polygons (6-polygon alphabet) x line skew {0,+3,-3} deg x {smart sorter x 3 intersection parameters, naive sorter x 3 denominators}. '
                'What the sorter is told about the page: {image + page_size, page_size only, neither (PageLayout() default (0, 0), image None), image only} on all 2-box lists, 2-polygon lists and the large layouts. '
                'state = (region list, skew, page information). Non-trivial: calls whose output order differs from the input order.',
        'bounds': BOUNDS[tier], 'alphabets': {'boxes': len(BOXES), 'overlapping': OVERLAPPING, 'polygons': POLYS, 'skews': SKEWS,
                                               'FakeIntersectionParameter': INTERSECT, 'ImageWidthDenominator': DENOMS, 'page_information': PAGE_INFO},
        'assumptions': ['geometry compared within 1e-6 (the smart sorter rotates by the de-skew angle and back)', 'region ids are unique'],
        'min_nontrivial': 100, 'required_tags': ['page-without-lines-after-a-slanted-page-on-one-sorter', 'baselines-not-left-to-right', 'line-ids-not-unique-on-the-page', 'more-than-nine-regions', 'integer-coordinate-arrays', 'order-actually-changed', 'de-skew-rotation-applied', 'mutually-overlapping-lists']
                         + ['sorter-given-' + e for e in PAGE_INFO[1:]] + ['de-skew-with-' + e for e in PAGE_INFO[1:]],
    }
