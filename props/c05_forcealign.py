"""C05 - Forced alignment is a valid, minimum-cost CTC alignment.

Space (input tree): all cost matrices with T <= Tmax rows drawn from a finite row alphabet (one row per shortcut:
unique optimum per symbol, ties between symbols, +inf entries, all-but-one +inf, fractional), every blank index,
and in every node ALL label sequences of length 1..T+1 over the non-blank symbols (incl. immediate repeats) plus
every sequence of length <= 2 that contains the blank.

Oracle: brute force over all C^T symbol paths (collapse = merge repeats, drop blanks).
"""
import itertools
import math

import numpy as np

ID = 'C05'

def nabs(x):
    """abs() for tolerance tests: a NaN counts as an infinite difference (a result that is not a number equals nothing)"""
    x = abs(x)
    return float('inf') if x != x else x


MANIFEST = dict(
    technique='explicit-state enumeration of the cost-matrix input tree x blank index x all label sequences; real force_align/align_text vs brute force over all C^T symbol paths',
    text='Bounded exhaustive: every cost matrix with T <= 4 (quick) / 5 (thorough) rows over an 8-row alphabet (ties, +inf, fractional) for C=3 and T <= 3/4 over 6 rows for C=4, every blank index, every label sequence of length 1..T+1 (repeats included) and sequences containing the blank; the same for float32 and integer cost matrices up to T = 3 / 4. Validity, optimality, the exact feasibility boundary and the most-confident-frame rule are checked against enumeration of all alignments. Added sub-sweeps: float32 / int64 cost matrices, costs shifted by +1000 / +200 (float32) / scaled by 1e-17, a 300-symbol output layer with small-integer label arrays, and lines of 260-1030 frames against a dynamic-programming minimum (validated against brute force in setup). Cost matrices whose entries are all negative. Wave 10: impossible symbols (+inf) next to finite costs of hundreds; every single failing array allocation of force_align / align_text on all two-row matrices. Wave 11: dense lines - T in {100, 127..129, 255..257} frames (both sides of 2^7 / 2^8) x every blank index x label counts L with L and the number of states 2L+1 just below / at / above 2^7 and 2^8, T/2, T-1, T (one label per frame) and T+1 (does not fit), with and without immediate repeats, against the dynamic-programming minimum (few frames with many states: a state index that does not fit the type a frame index fits).',
    note='Costs outside the alphabet and T above the bound are not explored; ties accept any optimal alignment; all-infinite alignments may either fail or be returned.',
    ref='3/C05')
INF = float('inf')

ROWS3 = [
    [0.1, 2.0, 3.0], [2.0, 0.1, 3.0], [3.0, 2.0, 0.1],     # unique optimum for each symbol
    [1.0, 1.0, 1.0],                                       # three-way tie
    [0.5, 0.5, 2.0],                                       # two-way tie
    [INF, 1.0, 0.2], [INF, INF, 0.3],                      # impossible symbols
    [0.25, 1.75, 0.75],                                    # fractional, different order
]
ROWS3I = [[1, 5, 9], [5, 1, 9], [9, 5, 1], [2, 2, 2], [1, 1, 7], [3, 8, 2]]       # integer costs (matrices of integer dtype)
ROWS4 = [
    [0.1, 2.0, 3.0, 1.5], [2.0, 0.1, 3.0, 1.5], [3.0, 2.0, 0.1, 1.5], [2.0, 2.5, 3.0, 0.1],
    [1.0, 1.0, 1.0, 1.0], [INF, 0.5, 0.5, 2.0],
]
BOUNDS = {
    'quick': dict(T3=4, T4=3, Tdtype=3),
    'thorough': dict(T3=5, T4=4, Tdtype=4),
}
BOUNDS['replay'] = BOUNDS['quick']


WIDE = {'cols': [3, 7, 299], 'labels_dtypes': ['uint8', 'int8', 'int16', 'list']}


MAGNITUDES = {'big': (np.float64, lambda v: v + 1000.0), 'f32big': (np.float32, lambda v: float(np.float32(v + 200.0))),
              'tiny': (np.float64, lambda v: v * 1e-17),      # costs far outside the usual range of negative log-probabilities
              'e100': (np.float64, lambda v: v * 1e100),      # finite, but beyond the range of single precision
              'neg': (np.float64, lambda v: v - 50.0),        # every cost negative (scores / negated probabilities used as costs): the minimum is unchanged
              'int25': (np.float64, lambda v: float(round(v * 10) + 2 ** 25)),      # integer-valued costs that single precision cannot tell apart
              'inf100': (np.float64, lambda v: v * 100.0)}     # impossible symbols (+inf, kept) next to finite costs of 10..300: a detour round an impossible cell costs hundreds
UNIT = {'tiny': 1e-17, 'e100': 1e100, 'inf100': 100.0}


def rows_for(C, dtype='f64'):
    if dtype == 'i64':
        return ROWS3I
    if dtype == 'inf100':
        f = MAGNITUDES[dtype][1]
        return [[(f(v) if v != INF else INF) for v in r] for r in ROWS3]
    if dtype in MAGNITUDES:
        f = MAGNITUDES[dtype][1]
        return [[f(v) for v in r] for r in ROWS3 if INF not in r]
    if C == 300:
        return ROWS3
    return ROWS3 if C == 3 else ROWS4


def setup(tier):
    # JIT-compile compute_update once in the parent so that forked workers inherit the compiled code
    from pero_ocr.core.force_alignment import force_align
    force_align(np.asarray([[0.1, 2.0], [2.0, 0.1]]), [0], 1)
    # conformance of the dynamic-programming reference (used for long lines only) with brute force on every matrix of <= 3 rows
    for T in (1, 2, 3):
        for idx in itertools.product(range(len(ROWS3)), repeat=T):
            M = [ROWS3[i] for i in idx]
            for blank in range(3):
                best = brute(M, blank)
                for lab in label_space(3, T, blank):
                    if blank in lab:
                        continue
                    w, g = best.get(tuple(lab), INF), dp_min_cost(M, lab, blank)
                    if not (w == g or abs(w - g) < 1e-9):
                        from mc.core import HarnessError
                        raise HarnessError(f'DP reference disagrees with brute force on {M} {lab} {blank}: {g} vs {w}')


def shards(tier):
    b = BOUNDS[tier]
    out = []
    for C, T in ((3, b['T3']), (4, b['T4'])):
        R = len(rows_for(C))
        for t in range(1, T + 1):
            if t <= 2:
                out.append({'C': C, 'T': t, 'prefix': []})
            else:   # split the level by its first two rows
                for p in itertools.product(range(R), repeat=2):
                    out.append({'C': C, 'T': t, 'prefix': list(p)})
    # the same search on matrices of other dtypes (float32, int64): unusual but legal inputs
    for dt in ('f32', 'i64', 'big', 'f32big', 'tiny', 'e100', 'int25', 'neg', 'inf100'):
        for t in range(1, b['Tdtype'] + 1):
            out.append({'C': 3, 'T': t, 'prefix': [], 'dtype': dt})
    # a 300-symbol output layer (blank = 299) with the labels held in small-integer numpy arrays
    for t in range(1, b['Tdtype'] + 1):
        out.append({'C': 300, 'T': t, 'prefix': []})
    # long lines: more than 255 frames / more than 127 labels (decided against a dynamic-programming reference, not brute force)
    for T in LONG_T[tier if tier in LONG_T else 'quick']:
        out.append({'long': T})
    for first in range(len(ROWS3)):
        out.append({'faults': first})
    # dense lines around the integer-type boundaries 2^7 / 2^8: the number of frames T, the number of labels L and the number of states 2L+1 on
    # both sides of the boundary independently (few frames with many states is a relation that neither the small matrices nor the long lines have)
    for T in DENSE_T[tier if tier in DENSE_T else 'quick']:
        for blank in range(3):
            out.append({'dense': T, 'blank': blank})
    return out


LONG_T = {'quick': [260, 300], 'thorough': [260, 300, 520, 1030]}


DENSE_T = {'quick': [100, 127, 128, 129, 255, 256, 257], 'thorough': [65, 100, 126, 127, 128, 129, 130, 200, 254, 255, 256, 257, 258]}


def dense_L(T):
    """label counts for a line of T frames: L and the number of states 2L+1 just below / at / just above 2^7 and 2^8, half the frames, and the
    feasibility boundary (one label per frame, one more than fits)"""
    return sorted({L for L in (62, 63, 64, 65, 126, 127, 128, 129, T // 2, T // 2 + 1, T - 1, T, T + 1) if 1 <= L <= T + 1})


def dense_labels(L, blank, kind):
    a, b = [s for s in range(3) if s != blank]
    if kind == 'alt':                                     # no immediate repeat: fits iff L <= T
        return [(a, b)[i % 2] for i in range(L)]
    return [(a, a, b, a, b, b, b, a)[i % 8] for i in range(L)]     # 'rep': immediate repeats (each needs a separating blank frame)


def dense_matrix(T):
    rows = [r for r in ROWS3 if INF not in r]
    return [rows[(t * 3 + t // 5) % len(rows)] for t in range(T)]


def dp_min_cost(M, labels, blank):
    """textbook forced-alignment DP over the state chain blank l1 blank l2 ... blank: minimum total cost, INF if none"""
    states = [blank]
    for l in labels:
        states += [l, blank]
    S, T = len(states), len(M)
    cur = [INF] * S
    cur[0] = M[0][states[0]]
    if S > 1:
        cur[1] = M[0][states[1]]
    for t in range(1, T):
        nxt = [INF] * S
        for k in range(S):
            best = cur[k]
            if k >= 1 and cur[k - 1] < best:
                best = cur[k - 1]
            if k >= 2 and states[k] != blank and states[k] != states[k - 2] and cur[k - 2] < best:
                best = cur[k - 2]
            if best < INF:
                nxt[k] = best + M[t][states[k]]
        cur = nxt
    return min(cur[-1], cur[-2]) if S > 1 else cur[-1]


def long_cases(T):
    rows = [r for r in ROWS3 if INF not in r]
    M = [rows[(t * 5 + t // 7) % len(rows)] for t in range(T)]
    yield M, [t % 2 for t in range(T // 2 - 3)]          # nearly as many labels as fit (no repeats): > 127 labels
    yield M, [0, 0] * (T // 4 - 2)                        # doubled labels need separating blanks
    yield M, [1]                                          # one label on a long line
    yield M, [0, 1] * 40 + [1, 1, 0]
    yield M, [t % 2 for t in range(T // 2 + 1)]           # fits exactly or not at all (2L-1 <= T)
    yield M, [0] * (T // 2 + 2)                           # does not fit (needs 2L-1 frames)


def run_shard(shard, ctx, tier):
    from mc.core import guarded_check
    import sys
    mod = sys.modules[__name__]
    if 'long' in shard:
        for k in range(6):
            guarded_check(mod, {'long': shard['long'], 'k': k}, ctx)
        return
    if 'dense' in shard:
        for L in dense_L(shard['dense']):
            for kind in ('alt', 'rep'):
                guarded_check(mod, {'dense': shard['dense'], 'L': L, 'kind': kind, 'blank': shard['blank']}, ctx)
        return
    if 'faults' in shard:
        for second in range(len(ROWS3)):
            for blank in (0, 2):
                guarded_check(mod, {'faults': [shard['faults'], second], 'blank': blank}, ctx)
        return
    C, T, prefix = shard['C'], shard['T'], shard['prefix']
    dt = shard.get('dtype', 'f64')
    R = len(rows_for(C, dt))
    for rest in itertools.product(range(R), repeat=T - len(prefix)):
        rows = prefix + list(rest)
        for blank in (range(C) if C != 300 else [299]):
            case = {'C': C, 'rows': rows, 'blank': blank}
            if dt != 'f64':
                case['dtype'] = dt
            guarded_check(mod, case, ctx)


def collapse(path, blank):
    out, prev = [], None
    for s in path:
        if s != prev and s != blank:
            out.append(s)
        prev = s
    return tuple(out)


def brute(M, blank):
    """labels -> (min cost, structurally-possible) over all C^T paths"""
    T, C = len(M), len(M[0])
    best = {}
    for path in itertools.product(range(C), repeat=T):
        c = 0.0
        for t, s in enumerate(path):
            c += M[t][s]
        k = collapse(path, blank)
        if k not in best or c < best[k]:
            best[k] = c
    return best


def label_space(C, T, blank):
    nb = [s for s in range(C) if s != blank]
    for L in range(1, T + 2):
        for lab in itertools.product(nb, repeat=L):
            yield list(lab)
    # sequences that contain the blank
    for lab in ([blank], [blank, nb[0]], [nb[0], blank], [nb[-1], blank, nb[-1]]):
        yield list(lab)


def check_long(case, ctx):
    from pero_ocr.core.force_alignment import force_align, align_text
    if 'dense' in case:
        T, blank = case['dense'], case['blank']
        M, labels = dense_matrix(T), dense_labels(case['L'], blank, case['kind'])
        sid = ('dense', T, case['L'], case['kind'], blank)
        K = f'{ID}/dense'
    else:
        T, blank = case['long'], 2
        M, labels = list(long_cases(T))[case['k']]
        sid = ('long', T, case['k'])
        K = f'{ID}/long'
    A = np.asarray(M, dtype=np.float64)
    want = dp_min_cost(M, labels, blank)
    ctx.state(sid)
    if 'dense' in case:
        S = 2 * len(labels) + 1
        if want < INF:
            if S > T:
                ctx.tag('dense-line-more-states-than-frames')
            for bits in (7, 8, 15):
                if S > 2 ** bits - 1 and T <= 2 ** bits:
                    ctx.tag(f'states-beyond-{bits}-bits-frames-within')        # a state index does not fit the type that holds a frame index
                    break
            if len(labels) == T:
                ctx.tag('one-label-per-frame')
    else:
        ctx.tag('more-than-255-frames')
    desc = f'{T} frames, {len(labels)} labels ({labels[:6]}...), blank {blank}, cost rows cycling through the 3-symbol alphabet'
    ctx.executed()
    try:
        got = [int(x) for x in force_align(A.copy(), list(labels), blank)]
    except ValueError as e:
        if want < INF:
            ctx.violation('failure-iff-no-alignment', f'{K}/force_align/false-failure', f'{desc}: ValueError({e}) although an alignment of cost {want} exists')
        ctx.outcome(('long-fail',))
        return
    if want == INF:
        ctx.violation('failure-iff-no-alignment', f'{K}/force_align/missed-failure', f'{desc}: returned a path although no alignment exists')
        return
    if len(got) != T or list(collapse(got, blank)) != list(labels):
        ctx.violation('collapses-to-labels', f'{K}/force_align/not-collapsing', f'{desc}: the returned path ({len(got)} frames) does not collapse to the labels')
        return
    cost = sum(M[t][sy] for t, sy in enumerate(got))
    if nabs(cost - want) > 1e-6:
        ctx.violation('minimum-cost', f'{K}/force_align/suboptimal', f'{desc}: cost {cost}, dynamic-programming minimum {want}')
        return
    pos = [int(x) for x in align_text(A.copy(), np.asarray(labels), blank)]
    seq = [int(x) for x in force_align(A.copy(), list(labels), blank, return_seq_positions=True)]
    ctx.executed(2)
    # the labels may be held in a narrow integer array (they are below 256): the frame positions are not labels and must not be squeezed into it
    for ldt in ('uint8', 'int8', 'int16'):
        pos_n = [int(x) for x in align_text(A.copy(), np.asarray(labels, dtype=ldt), blank)]
        ctx.executed()
        if pos_n != pos:
            ctx.violation('positions-most-confident-frame', f'{K}/align_text/depends-on-label-dtype',
                          f'{desc}: labels as {ldt} array give positions {pos_n[:4]}..{pos_n[-3:]}, as int64 {pos[:4]}..{pos[-3:]}')
            return
    conf = (-A).max(axis=-1)
    frames = {}
    for t, i in enumerate(seq):
        if i >= 0:
            frames.setdefault(i, []).append(t)
    bad = None
    if len(pos) != len(labels) or any(a >= b for a, b in zip(pos, pos[1:])):
        bad = f'positions not strictly increasing ({pos[:8]}...)'
    else:
        for i in range(len(labels)):
            if pos[i] not in frames.get(i, []) or conf[pos[i]] < max(conf[t] for t in frames[i]) - 1e-12:
                bad = f'position {pos[i]} of character {i} is not the most confident of its frames {frames.get(i)}'
                break
    if bad:
        ctx.violation('positions-most-confident-frame', f'{K}/align_text', f'{desc}: {bad}')
        return
    ctx.outcome((sid[0], T, len(labels)))
    ctx.nontrivial(sid)


def check_faults(case, ctx):
    """environment answers (mc/faults.py): every single failing array allocation made by force_align / align_text themselves.  The call may report the
    failure; an alignment it returns nevertheless collapses to the labels and has the minimum cost"""
    from pero_ocr.core.force_alignment import force_align, align_text
    from mc import faults
    M = [ROWS3[i] for i in case['faults']]
    blank = case['blank']
    A = np.asarray(M, dtype=np.float64)
    best = brute(M, blank)
    ctx.state(('faults', tuple(case['faults']), blank))
    inj = faults.Injector(faults.numpy_allocators(), faults.memory_error)
    for labels in label_space(3, len(M), blank):
        key = tuple(labels)
        if blank in labels or key not in best or not best[key] < INF:
            continue
        for fn in ('force_align', 'align_text'):
            call = (lambda: [int(x) for x in force_align(A.copy(), list(labels), blank)]) if fn == 'force_align' else \
                (lambda: [int(x) for x in align_text(A.copy(), np.asarray(labels), blank)])
            for kk, site, (what, val) in inj.explore(call):
                ctx.executed()
                if kk is None:
                    if what != 'ok':
                        raise val
                    ref = val
                    continue
                ctx.tag('fault-points')
                if what == 'raised':
                    ctx.tag('failure-reported')
                    continue
                ctx.nontrivial(('fault', tuple(case['faults']), blank, key, fn, kk), 'alignment-returned-despite-a-failed-allocation')
                if fn == 'force_align':
                    ok = len(val) == len(M) and collapse(val, blank) == key and nabs(sum(M[t][s_] for t, s_ in enumerate(val)) - best[key]) <= 1e-9
                else:
                    ok = val == ref or (len(val) == len(labels) and all(0 <= p < len(M) for p in val) and all(a < b for a, b in zip(val, val[1:])))
                if not ok:
                    ctx.violation('minimum-cost', f'{ID}/{fn}/result-returned-after-a-failed-allocation',
                                  f'{fn}(costs {M}, labels {labels}, blank {blank}) with the allocation #{kk} ({site[2]} in {site[0]}:{site[1]}) raising MemoryError '
                                  f'returned {val} (fault-free result {ref}, minimum cost {best[key]})')
                    return


def check_case(case, ctx):
    from pero_ocr.core.force_alignment import force_align, align_text
    if 'faults' in case:
        return check_faults(case, ctx)
    if 'long' in case or 'dense' in case:
        return check_long(case, ctx)
    C, rows, blank = case['C'], case['rows'], case['blank']
    dt = case.get('dtype', 'f64')
    RA = rows_for(C, dt)
    M = [RA[i] for i in rows]
    T = len(M)
    A = np.asarray(M, dtype={'f64': np.float64, 'f32': np.float32, 'i64': np.int64}[dt] if dt not in MAGNITUDES else MAGNITUDES[dt][0])
    unit = UNIT.get(dt, 1.0)                                 # tolerances are relative to the magnitude of the costs
    if C == 300:
        return check_wide(case, ctx, M)
    best = brute(M, blank)
    ctx.state((C, tuple(rows), blank, dt))
    labsets = [case['labels']] if 'labels' in case else label_space(C, T, blank)
    K = f'{ID}/C{C}' + ('' if dt == 'f64' else f'/{dt}')
    if dt != 'f64':
        ctx.tag('non-float64-cost-matrices')
    if dt in MAGNITUDES:
        ctx.tag('unusual-cost-magnitudes')
    for labels in labsets:
        sub = dict(case, labels=labels)
        key = tuple(labels)
        exists = key in best and blank not in labels
        finite = exists and best[key] < INF
        ctx.executed()
        try:
            got = force_align(A.copy(), list(labels), blank)
            err = None
        except ValueError as e:
            got, err = None, e
        if err is not None:
            if finite:
                ctx.violation('failure-iff-no-alignment', f'{K}/force_align/false-failure',
                              f'force_align raised ValueError({err}) for labels {labels}, blank {blank}, costs {M}; '
                              f'an alignment of cost {best[key]} exists', sub)
            if exists and not finite:
                ctx.tag('only-infinite-alignments')
            ctx.outcome(('fail',))
            continue
        got = [int(x) for x in got]
        if not exists:
            ctx.violation('failure-iff-no-alignment', f'{K}/force_align/missed-failure',
                          f'force_align returned {got} for labels {labels}, blank {blank}, T={T}: no alignment exists', sub)
            continue
        if len(got) != T or collapse(got, blank) != key:
            ctx.violation('collapses-to-labels', f'{K}/force_align/not-collapsing',
                          f'force_align returned {got} (T={T}) which collapses to {list(collapse(got, blank))}, labels {labels}, blank {blank}', sub)
            continue
        cost = sum(M[t][s] for t, s in enumerate(got))
        if finite and not (abs(cost - best[key]) <= (1e-9 if dt != 'f32big' else 1e-3) * unit):
            ctx.violation('minimum-cost', f'{K}/force_align/suboptimal',
                          f'force_align returned {got} with cost {cost}; minimum over all alignments is {best[key]} '
                          f'(labels {labels}, blank {blank}, costs {M})', sub)
            continue
        ctx.outcome((tuple(got),))
        if not finite:
            ctx.tag('only-infinite-alignments')
            continue
        if T > 2 * len(labels) - 1 or len(set(labels)) < len(labels):
            ctx.nontrivial((C, tuple(rows), blank, key))
        if any(a == b for a, b in zip(labels, labels[1:])):
            ctx.tag('repeated-label-aligned')

        # ---- per-character frame positions
        ctx.executed(2)
        pos = [int(p) for p in align_text(A.copy(), np.asarray(labels), blank)]
        seq = [int(x) for x in force_align(A.copy(), list(labels), blank, return_seq_positions=True)]
        syms = [labels[i] if i >= 0 else blank for i in seq]
        if len(seq) != T or collapse(syms, blank) != key or any(
                i >= 0 and not (0 <= i < len(labels)) for i in seq) or \
                [i for i, _ in itertools.groupby([i for i in seq if i >= 0])] != list(range(len(labels))):
            ctx.violation('collapses-to-labels', f'{K}/force_align/seq-positions-invalid',
                          f'force_align(return_seq_positions=True) = {seq} is not an alignment of labels {labels}', sub)
            continue
        conf = (-np.asarray(M, dtype=float)).max(axis=-1)
        bad = None
        for i in range(len(labels)):
            frames = [t for t in range(T) if seq[t] == i]
            if pos[i] not in frames:
                bad = f'position {pos[i]} of character {i} is not among its aligned frames {frames}'
                kind = 'outside-aligned-frames'
                break
            if conf[pos[i]] < max(conf[t] for t in frames) - 1e-12 * unit:
                bad = (f'position {pos[i]} of character {i} has confidence {conf[pos[i]]}, but frame '
                       f'{max(frames, key=lambda t: conf[t])} of its frames {frames} has {max(conf[t] for t in frames)}')
                kind = 'not-most-confident'
                break
            if len(frames) > 1 and len({float(conf[t]) for t in frames}) > 1:
                ctx.tag('multi-frame-char-with-distinct-confidences')
        if bad is None and any(a >= b for a, b in zip(pos, pos[1:])):
            bad, kind = f'positions {pos} not strictly increasing', 'not-increasing'
        if bad:
            ctx.violation('positions-most-confident-frame', f'{K}/align_text/{kind}',
                          f'align_text -> {pos}, alignment {seq}: {bad} (labels {labels}, blank {blank}, costs {M})', sub)
            continue
        # ---- the caller keeps ONE cost buffer: it is aligned, refilled in place with the costs of another line (the frames in reverse order),
        #      and aligned again - the second answer is that of the buffer as it is now
        if dt == 'f64' and T >= 2 and M[::-1] != M:
            M2 = M[::-1]
            b2 = brute(M2, blank)
            if key in b2 and b2[key] < INF:
                buf = A.copy()
                try:
                    align_text(buf, np.asarray(labels), blank)
                    force_align(buf, list(labels), blank)
                    buf[...] = np.asarray(M2, dtype=buf.dtype)
                    p2 = [int(x) for x in align_text(buf, np.asarray(labels), blank)]
                    g2 = [int(x) for x in force_align(buf, list(labels), blank)]
                    f2 = [int(x) for x in align_text(np.asarray(M2, dtype=np.float64), np.asarray(labels), blank)]
                except ValueError as e:
                    p2 = g2 = f2 = None
                    err2 = e
                ctx.executed(5)
                if p2 is None:
                    ctx.violation('failure-iff-no-alignment', f'{K}/force_align/false-failure/cost-buffer-refilled-in-place',
                                  f'costs {M} aligned, the same array refilled in place with {M2} and aligned again: ValueError({err2}) although an alignment of labels {labels} exists', sub)
                    continue
                c2 = sum(M2[t][s_] for t, s_ in enumerate(g2)) if len(g2) == T else None
                if c2 is None or collapse(g2, blank) != key or not (nabs(c2 - b2[key]) <= 1e-9) or p2 != f2:
                    ctx.violation('minimum-cost', f'{K}/cost-buffer-refilled-in-place-and-aligned-again',
                                  f'costs {M} aligned (labels {labels}, blank {blank}), the same array refilled in place with {M2} and aligned again: force_align -> {g2} '
                                  f'(cost {c2}, minimum {b2[key]}), align_text -> {p2}; on a fresh array align_text -> {f2}', sub)
                    continue
                ctx.tag('cost-buffer-refilled-in-place')


def check_wide(case, ctx, M3):
    """C = 300 symbols: the three interesting symbols sit in columns 3, 7 and 299 (blank); every other column costs 9"""
    from pero_ocr.core.force_alignment import force_align, align_text
    T = len(M3)
    cols = WIDE['cols']
    A = np.full((T, 300), 9.0)
    for t in range(T):
        for k, c in enumerate(cols):
            A[t, c] = M3[t][k]
    best = brute(M3, 2)                 # over the three relevant symbols (0, 1, blank=2); others cannot collapse to the labels
    ctx.state((300, tuple(case['rows'])))
    ctx.tag('wide-alphabet-small-int-labels')
    for lab3 in label_space(3, T, 2):
        if 2 in lab3:
            continue
        labels = [cols[l] for l in lab3]
        key = tuple(lab3)
        exists = key in best
        finite = exists and best[key] < INF
        for ldt in WIDE['labels_dtypes']:
            lab_arg = list(labels) if ldt == 'list' else np.asarray(labels, dtype=ldt)
            sub = dict(case, labels=labels, labels_dtype=ldt)
            K = f'{ID}/C300/{ldt}'
            for blank_arg in (299, np.int64(299)):
                ctx.executed()
                try:
                    got = [int(x) for x in force_align(A.copy(), lab_arg, blank_arg)]
                except ValueError:
                    if finite:
                        ctx.violation('failure-iff-no-alignment', f'{K}/force_align/false-failure',
                                      f'labels {labels} ({ldt}), blank {blank_arg!r}, T={T}: ValueError although an alignment of cost {best[key]} exists', sub)
                        return
                    continue
                if not exists:
                    ctx.violation('failure-iff-no-alignment', f'{K}/force_align/missed-failure', f'labels {labels} ({ldt}), T={T}: returned {got}', sub)
                    return
                back = [cols.index(g) if g in cols else -1 for g in got]
                if len(got) != T or -1 in back or collapse(back, 2) != key:
                    ctx.violation('collapses-to-labels', f'{K}/force_align/not-collapsing',
                                  f'labels {labels} ({ldt}), blank {blank_arg!r}: returned {got}, which does not collapse to the labels', sub)
                    return
                cost = sum(M3[t][s] for t, s in enumerate(back))
                if finite and nabs(cost - best[key]) > 1e-9:
                    ctx.violation('minimum-cost', f'{K}/force_align/suboptimal', f'labels {labels} ({ldt}): cost {cost}, minimum {best[key]}', sub)
                    return
            if finite and ldt != 'list':
                pos = [int(x) for x in align_text(A.copy(), np.asarray(labels, dtype=ldt), np.int64(299))]
                ctx.executed()
                if len(pos) != len(labels) or any(a >= b for a, b in zip(pos, pos[1:])):
                    ctx.violation('positions-most-confident-frame', f'{K}/align_text/not-increasing', f'labels {labels} ({ldt}): positions {pos}', sub)
                    return
    ctx.outcome(('wide', T))


def describe(tier):
    b = BOUNDS[tier]
    return {
        'rule': 'all cost matrices of T<=T3 rows over the 8-row alphabet (C=3) and T<=T4 rows over the 6-row alphabet (C=4), '
                'x every blank index x every label sequence of length 1..T+1 over the non-blank symbols (+ sequences '
                'containing the blank). state = (matrix, blank). Non-trivial: an alignment exists and either there are more '
                'frames than the minimal 2L-1 interleaving needs (real choice) or a label repeats.',
        'bounds': b,
        'alphabets': {'rows_C3': [[('inf' if x == INF else x) for x in r] for r in ROWS3],
                      'rows_C4': [[('inf' if x == INF else x) for x in r] for r in ROWS4]},
        'assumptions': ['when alignments exist structurally but all cost +inf, both ValueError and a collapsing path are accepted',
                        'ties: any minimum-cost alignment and any most-confident frame is accepted',
                        'per-frame confidence = max over symbols of the frame (as stated: "where the network is most confident")'],
        'min_nontrivial': 100,
        'required_tags': ['dense-line-more-states-than-frames', 'states-beyond-7-bits-frames-within', 'states-beyond-8-bits-frames-within', 'one-label-per-frame', 'cost-buffer-refilled-in-place', 'fault-points', 'failure-reported', 'more-than-255-frames', 'unusual-cost-magnitudes', 'repeated-label-aligned', 'multi-frame-char-with-distinct-confidences', 'only-infinite-alignments',
                          'non-float64-cost-matrices', 'wide-alphabet-small-int-labels'],
    }
