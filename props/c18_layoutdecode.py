"""C18 - Detection maps decode to one line per ridge, in original-image coordinates.

Drivers: LayoutEngine.parse(maps, ds) on synthetic maps, and LayoutEngine.detect(image, rot) with a stub `parsenet` that reads the
maps out of the image, so that the rotation really acts on them (the engine object is built with object.__new__, its attributes are the
constructor's defaults read via inspect.signature - the constructor insists on loading a network).

Space (configuration lattice): single ridges: row x x-offset x length {6,20,60,200} x slope {0,+-1/40} x thickness {1,2,3} x
(ascender,descender) x end-point responses {no,yes} x down-sampling {1,2,4,8}; pairs and triples of ridges over an 8-variant alphabet
(vertical separation 25 map px) + two ridges on one row; rotated passes: rotations {0,1,2,3} x page shapes {75x125, 125x75, 96x96 map
px} x down-sampling {1,4} x ridge sets; page sides modulo the factor: all residue classes for factors {2,3,4} x rotations x page shapes
(strided stub: ceil-shaped maps; real TorchParseNet.get_maps: round-shaped maps).

(as built, added) adaptive down-sampling: the REAL TorchParseNet.get_maps_with_optimal_resolution (state: last_downsample) around a renderer
of known pages; ALL histories of pages with 5 print sizes up to depth 2 / 3 x rotation {0, 1}.

Oracle: count, end points, vertical position and heights against the painted ridges; outline == baseline_to_textline; for rotated
passes detect(image, rot=k) against the exact inverse rot90 mapping of detect(rot90(image, k), rot=0), within 1 px.
"""
import inspect
import itertools

import numpy as np

ID = 'C18'

def nmax(a):
    """max() of an array of differences; a NaN anywhere counts as an infinite difference"""
    import numpy as _np
    a = _np.asarray(a, dtype=float)
    return float('inf') if a.size and bool(_np.isnan(a).any()) else (float(a.max()) if a.size else 0.0)


def nabs(x):
    """abs() for tolerance tests: a NaN counts as an infinite difference (a result that is not a number equals nothing)"""
    x = abs(x)
    return float('inf') if x != x else x


MANIFEST = dict(
    technique='explicit-state enumeration of a synthetic detection-map lattice (ridge geometry x heights x end-point responses x down-sampling) on the real LayoutEngine.parse, and of rotation x page shape x ridge sets on the real LayoutEngine.detect with a stub network; geometric oracle + rotation differential',
    text='Bounded exhaustive: every single ridge of the lattice (4 rows x 2 offsets x 4 lengths x 3 slopes x 3 thicknesses x 3 height pairs x end-point responses on/off) x 4 down-sampling factors, every ordered pair / triple of ridges over an 8-variant alphabet, and two ridges sharing a row; decoding must return exactly one line per ridge with end points within 3 map px, rows within (1 + thickness/2) map px, heights equal to the map values times the factor, and the outline of baseline_to_textline. For rotations 0-3 on non-square and square pages, detect(image, rot) must agree within 1 px with the exact inverse rotation of the layout decoded from the rotated image (regions, baselines, outlines). Added sub-sweeps: two ridges starting on the same row, an independent reference of the outline, histories of pages of different print sizes through the real adaptive down-sampling logic (adaptive on/off x pixel budget exceeded or not), non-default engine options, and maps with 130-300 ridges. Orientation sequences (1,3 / 3,1 / 0,2 / 2,0 / 0,1,3) of one page on ONE engine through the real TorchParseNet.get_maps (image-encoded maps); different print sizes at the two map borders. Wave 10: the same maps object decoded six times; skewed pages whose parallel ridges overlap in rows; the network (stub, and inside the real TorchParseNet) raising an out-of-memory error once during detect in every orientation - a layout that is returned must be the page\'s layout. Wave 11: pages whose sides are NOT multiples of the down-sampling factor - every residue class (rows x columns) of the page modulo the factor for factors 2, 3, 4 (thorough: 5, 8 too), in every rotation on every page shape, with the strided stub network (map shape = ceil(side / factor)) and, for the orientations 0,1,2,3 in turn on one engine, through the real TorchParseNet.get_maps (cv2.resize: map shape = round(side / factor)); same rotation differential within 1 px.',
    note='Synthetic piecewise-constant maps (no trained network); ridges separated by >= 25 map px vertically; tolerances as stated.',
    ref='3/C18')

ROWS = [20, 45, 70, 95]
X0S = [5, 30]
LENS = [6, 20, 60, 200]
SLOPES = [0.0, 1 / 40, -1 / 40]
THICK = [1, 2, 3]
HTS = [(6.0, 2.0), (10.0, 5.0), (3.0, 3.0)]
DSS = [1, 2, 4, 8]
MAP_SHAPE = (120, 260)
ALPHA8 = [(0, 2, 0, 0, 0, 0), (1, 1, 1, 1, 1, 1), (0, 3, 2, 2, 2, 0), (1, 0, 0, 0, 1, 0), (0, 1, 0, 2, 0, 1), (1, 2, 1, 0, 2, 0),
          (0, 2, 2, 1, 1, 1), (1, 3, 0, 1, 0, 0)]     # (x0, len, slope, thickness, heights, endpoints) indices
ROT_SHAPES = [(75, 125), (125, 75), (96, 96)]
BOUNDS = {'quick': dict(ds_single=[1, 4], multi_ds=[2], adaptive_depth=2, rem_ds=[2, 3, 4], rem_ds_real=[2, 4]),
          'thorough': dict(ds_single=DSS, multi_ds=[1, 2, 8], adaptive_depth=3, rem_ds=[2, 3, 4, 5, 8], rem_ds_real=[2, 3, 4])}
# page sides that are NOT multiples of the down-sampling factor: every residue class (rows, columns) of the page modulo the factor, for a single ridge
# and a pair of ridges (indices into ALPHA8), in every rotation on every page shape.  The maps of the strided stub have ceil(side / ds) rows, those of
# the real TorchParseNet.get_maps (cv2.resize) round(side / ds): the map shape times the factor is larger / smaller than the page, or equal to it.
REM_COMBOS = [[1], [5, 2]]
REM_SEQ = [0, 1, 2, 3]
REM_KEY = 'page-sides-not-multiples-of-the-down-sampling-factor'
BOUNDS['replay'] = BOUNDS['quick']
_ENG = {}


def setup(tier):
    pass


# documented constructor options of LayoutEngine, one at a time (not the detection threshold: the painted ridges are one pixel thin and
# the smoothed response of such a ridge peaks below 0.5, so a higher threshold legitimately finds nothing)
ENGINE_CFGS = [{}, {'smooth_line_predictions': False}, {'line_end_weight': 0.5}, {'vertical_line_connection_range': 3}]


def engine(cfg=0):
    """a LayoutEngine with the constructor options ENGINE_CFGS[cfg]: the real constructors (LayoutEngine -> TorchParseNet) run, only the loading
    of the network file is replaced; if they cannot be driven that way, the attributes the constructor sets are set by hand"""
    if cfg not in _ENG:
        from pero_ocr.layout_engines.cnn_layout_engine import LayoutEngine
        opts = ENGINE_CFGS[cfg]
        try:
            import contextlib
            import io
            import unittest.mock
            import torch
            from pero_ocr.layout_engines import torch_parsenet
            with unittest.mock.patch.object(torch_parsenet.torch.jit, 'load', lambda *a, **kw: None), contextlib.redirect_stdout(io.StringIO()):
                _ENG[cfg] = LayoutEngine('stub-model', torch.device('cpu'), **opts)
        except Exception:  # noqa
            e = object.__new__(LayoutEngine)
            d = {k: v.default for k, v in inspect.signature(LayoutEngine.__init__).parameters.items() if v.default is not inspect.Parameter.empty}
            d.update(opts)
            e.line_end_weight = d['line_end_weight']
            e.vertical_line_connection_range = d['vertical_line_connection_range']
            e.smooth_line_predictions = d['smooth_line_predictions']
            e.line_detection_threshold = d['detection_threshold']
            e.adaptive_downsample = d['adaptive_downsample']
            e.paragraph_line_threshold = d['paragraph_line_threshold']
            _ENG[cfg] = e
    return _ENG[cfg]


def shards(tier):
    out = []
    for r in range(len(ROWS)):
        for li in range(len(LENS)):
            out.append({'kind': 'single', 'row': r, 'len': li})
    for f in range(len(ALPHA8)):
        out.append({'kind': 'multi', 'first': f})
    for k in range(4):
        for s in range(len(ROT_SHAPES)):
            out.append({'kind': 'rot', 'rot': k, 'shape': s})
    for f in range(len(PRINT_SIZES)):
        out.append({'kind': 'adaptive', 'first': f})
    for n in (130, 260, 300):
        out.append({'kind': 'many', 'n': n})
    out.append({'kind': 'border'})
    out.append({'kind': 'skew'})
    for s in range(len(ROT_SHAPES)):
        out.append({'kind': 'rotseq', 'shape': s})
    return out


def run_shard(shard, ctx, tier):
    from mc.core import guarded_check
    import sys
    mod = sys.modules[__name__]
    b = BOUNDS[tier]
    if shard['kind'] == 'border':
        for d in (1, 2):
            for strong_top in (0, 1):
                for ds in (1, 4):
                    guarded_check(mod, {'border': d, 'strong_top': strong_top, 'ds': ds}, ctx)
        return
    if shard['kind'] == 'skew':
        for sl in range(len(SKEW_SLOPES)):
            for n in (2, 3, 4):
                for ds in (1, 2):
                    guarded_check(mod, {'skew': sl, 'n': n, 'ds': ds}, ctx)
        return
    if shard['kind'] == 'rotseq':
        for ds in (1, 4):
            for combo in itertools.product(range(4), repeat=2):
                for seq in ROT_SEQS:
                    guarded_check(mod, {'rotseq': list(seq), 'shape': shard['shape'], 'ds': ds, 'combo': list(combo)}, ctx)
        for ds in b['rem_ds_real']:
            for rh, rw in itertools.product(range(ds), repeat=2):
                if rh or rw:
                    for combo in REM_COMBOS:
                        guarded_check(mod, {'rotseq': list(REM_SEQ), 'shape': shard['shape'], 'ds': ds, 'combo': list(combo), 'rem': [rh, rw]}, ctx)
        return
    if shard['kind'] == 'many':
        for ds in (1, 2):
            guarded_check(mod, {'many': shard['n'], 'ds': ds}, ctx)
        return
    if shard['kind'] == 'single':
        for x0, sl, th, ht, ep in itertools.product(range(len(X0S)), range(len(SLOPES)), range(len(THICK)), range(len(HTS)), (0, 1)):
            for ds in b['ds_single']:
                guarded_check(mod, {'ridges': [[shard['row'], x0, shard['len'], sl, th, ht, ep]], 'ds': ds}, ctx)
    elif shard['kind'] == 'multi':
        f = ALPHA8[shard['first']]
        for ds in b['multi_ds']:
            for g in ALPHA8:
                guarded_check(mod, {'ridges': [[0] + list(f), [1] + list(g)], 'ds': ds}, ctx)
                for ec in range(1, len(ENGINE_CFGS)):
                    guarded_check(mod, {'ridges': [[0] + list(f), [1] + list(g)], 'ds': ds, 'ecfg': ec}, ctx)
                guarded_check(mod, {'ridges': [[2, f[0], min(f[1], 2)] + list(f[2:]), [2, 1, 1, g[2], g[3], g[4], g[5], 150]], 'ds': ds}, ctx)   # same row, second starts at x=150
                for h in ALPHA8:
                    guarded_check(mod, {'ridges': [[0] + list(f), [1] + list(g), [3] + list(h)], 'ds': ds}, ctx)
    elif shard['kind'] == 'adaptive':
        n = len(PRINT_SIZES)
        for L in range(1, b.get('adaptive_depth', 2) + 1):
            for rest in itertools.product(range(n), repeat=L - 1):
                for rot in (0, 1):
                    guarded_check(mod, {'adaptive': [shard['first']] + list(rest), 'rot': rot}, ctx)
                    if L <= 2:
                        for cfg in (1, 2, 3):        # fixed factor / fixed factor + pixel budget exceeded / adaptive + pixel budget exceeded
                            guarded_check(mod, {'adaptive': [shard['first']] + list(rest), 'rot': rot, 'cfg': cfg}, ctx)
    else:
        for ds in (1, 4):
            for n in (1, 2):
                for combo in itertools.product(range(len(ALPHA8)), repeat=n):
                    guarded_check(mod, {'rot': shard['rot'], 'shape': shard['shape'], 'ds': ds, 'combo': list(combo)}, ctx)
                    if n == 2 and ROT_SHAPES[shard['shape']][1] >= 96 and combo[0] != combo[1]:
                        guarded_check(mod, {'rot': shard['rot'], 'shape': shard['shape'], 'ds': ds, 'combo': list(combo), 'same_row': 1}, ctx)
        for ds in b['rem_ds']:
            for rh, rw in itertools.product(range(ds), repeat=2):
                if rh or rw or ds not in (1, 4):                 # (the exact multiples at ds 1 / 4 are the sweep above)
                    for combo in REM_COMBOS:
                        guarded_check(mod, {'rot': shard['rot'], 'shape': shard['shape'], 'ds': ds, 'combo': list(combo), 'rem': [rh, rw]}, ctx)


def ridge_geometry(r, shape):
    """r = [row_i, x0_i, len_i, slope_i, thick_i, heights_i, endpoints, (x0 override)] -> dict"""
    row = ROWS[r[0]] if shape == MAP_SHAPE else [15, 40, 65, 90][r[0]]
    x0 = X0S[r[1]] if len(r) < 8 else r[7]
    L = LENS[r[2]]
    x1 = min(x0 + L - 1, shape[1] - 6)
    return {'row': row, 'x0': x0, 'x1': x1, 'slope': SLOPES[r[3]], 'thick': THICK[r[4]], 'h': HTS[r[5]], 'ep': bool(r[6])}


def paint(ridges, shape):
    maps = np.zeros((shape[0], shape[1], 5), dtype=np.float32)
    for g in ridges:
        xs = np.arange(g['x0'], g['x1'] + 1)
        ys = np.round(g['row'] + g['slope'] * (xs - g['x0'])).astype(int)
        for t in range(g['thick']):
            yy = np.clip(ys - (g['thick'] - 1) // 2 + t, 0, shape[0] - 1)
            maps[yy, xs, 2] = g.get('resp', 1.0)
        for dy in range(-6, 7):
            yy = np.clip(ys + dy, 0, shape[0] - 1)
            maps[yy, xs, 0] = g['h'][0]
            maps[yy, xs, 1] = g['h'][1]
        if g['ep']:
            for xe, ye in ((xs[0], ys[0]), (xs[-1], ys[-1])):
                maps[max(ye - 1, 0):ye + 2, xe, 3] = 1.0
    return maps


def match_lines(b_list, ridges, ds):
    """assign detected baselines to ridges by row and x; returns list of (ridge, index or None)"""
    used, out = set(), []
    for g in ridges:
        best, bd = None, None
        for i, b in enumerate(b_list):
            if i in used:
                continue
            d = abs(b[:, 1].mean() / ds - (g['row'] + g['slope'] * (g['x1'] - g['x0']) / 2)) + 0.05 * abs(b[0, 0] / ds - g['x0'])
            if bd is None or d < bd:
                best, bd = i, d
        if best is not None and bd < 12:
            used.add(best)
        else:
            best = None
        out.append((g, best))
    return out


def ref_outline(b, h):
    """independent reference of the text-line outline: every baseline point moved by the ascender against / the descender along the local
    unit normal (direction to the next point, the last point re-uses the previous direction); upper edge left-to-right, lower edge back"""
    import math
    h0, h1 = max(1.0, float(h[0])), max(1.0, float(h[1]))
    up, down = [], []
    n = len(b)
    for i in range(n):
        j = i if i < n - 1 else n - 2
        dx, dy = b[j + 1][0] - b[j][0], b[j + 1][1] - b[j][1]
        L = math.hypot(dx, dy)
        nx, ny = -dy / L, dx / L                      # unit normal pointing down (image coordinates)
        up.append([b[i][0] - nx * h0, b[i][1] - ny * h0])
        down.append([b[i][0] + nx * h1, b[i][1] + ny * h1])
    return np.asarray(up + down[::-1], dtype=float)


def check_lines(b_list, h_list, t_list, ridges, ds, ctx, K, desc, case):
    if len(b_list) != len(ridges):
        kind = 'missed' if len(b_list) < len(ridges) else 'extra'
        short = any(g['x1'] - g['x0'] + 1 <= 6 and g['ep'] for g in ridges)
        ctx.violation('one-line-per-ridge', f'{K}/line-count/{kind}' + ('/6px-ridge-with-endpoint-responses' if short and kind == 'missed' else ''),
                      f'{desc}: {len(b_list)} lines decoded for {len(ridges)} ridges', case)
        return False
    for g, i in match_lines(b_list, ridges, ds):
        if i is None:
            ctx.violation('one-line-per-ridge', f'{K}/no-line-near-ridge', f'{desc}: no decoded line near ridge {g}', case)
            return False
        b, h, t = np.asarray(b_list[i], dtype=float), h_list[i], np.asarray(t_list[i], dtype=float)
        y_at = lambda x: g['row'] + g['slope'] * (x - g['x0'])
        tol_y = (1.0 + g['thick'] / 2.0) * ds
        if nabs(b[0, 0] - ds * g['x0']) > 3 * ds or nabs(b[-1, 0] - ds * g['x1']) > 3 * ds:
            ctx.violation('end-points-match', f'{K}/end-points',
                          f'{desc}: baseline runs from x={b[0, 0]} to x={b[-1, 0]}, ridge from {ds * g["x0"]} to {ds * g["x1"]} (tolerance {3 * ds})', case)
            return False
        err = max(abs(p[1] - ds * y_at(p[0] / ds)) for p in b)
        if err > tol_y + nabs(g['slope']) * 3 * ds:
            ctx.violation('vertical-position-matches', f'{K}/vertical-position',
                          f'{desc}: baseline {b.tolist()} is {err:.2f} px away from the ridge row {g["row"]}*{ds} (tolerance {tol_y})', case)
            return False
        if np.any(np.diff(b[:, 0]) <= 0) or len(b) < 2:
            ctx.violation('end-points-match', f'{K}/baseline-not-left-to-right', f'{desc}: {b.tolist()}', case)
            return False
        if nabs(h[0] - ds * g['h'][0]) > 1e-4 * ds or nabs(h[1] - ds * g['h'][1]) > 1e-4 * ds:
            ctx.violation('heights-match', f'{K}/heights', f'{desc}: heights {list(h)}, map values x ds = {[ds * g["h"][0], ds * g["h"][1]]}', case)
            return False
        want = ref_outline(b, h)
        if t.shape != want.shape or nmax(np.abs(t - want)) > 1e-2:
            ctx.violation('outline-from-baseline-and-heights', f'{K}/outline',
                          f'{desc}: outline {t.round(2).tolist()} is not the band of ascender {h[0]} above / descender {h[1]} below the baseline '
                          f'{b.tolist()} (expected {want.round(2).tolist()})', case)
            return False
    return True


def check_parse(case, ctx):
    ridges = [ridge_geometry(r, MAP_SHAPE) for r in case['ridges']]
    ds = case['ds']
    ec = case.get('ecfg', 0)
    ctx.state((str(case['ridges']), ds, ec))
    maps = paint(ridges, MAP_SHAPE)
    b_list, h_list, t_list = engine(ec).parse(maps.copy(), ds)
    ctx.executed()
    desc = f'ridges {ridges}, ds={ds}' + (f', engine options {ENGINE_CFGS[ec]}' if ec else '')
    if ec:
        ctx.tag('non-default-engine-options')
    if check_lines(b_list, h_list, t_list, ridges, ds, ctx, f'{ID}/parse', desc, case):
        ctx.outcome((len(b_list), tuple(len(b) for b in b_list)))
        if len(ridges) > 1:
            ctx.nontrivial((str(case['ridges']), ds), 'several-ridges')
        if any(g['ep'] for g in ridges):
            ctx.tag('with-end-point-responses')
        if any(g['slope'] for g in ridges):
            ctx.tag('sloped-ridges')
        if len(ridges) == 2 and ds == 2 and case['ridges'][0][1:] == list(ALPHA8[0]) and case['ridges'][1][0] == 1:
            ctx.sample({'ridges': ridges, 'ds': ds, 'baselines': [np.asarray(b).tolist() for b in b_list], 'heights': [list(map(float, h)) for h in h_list]})


PRINT_SIZES = [30, 48, 84, 110, 200, 320]          # ascender heights (original pixels) of the text on a 2400 x 1800 page
PAGE_HW = (2400, 1800)


def page_lines(size):
    """three text lines of one print size: (y, x0, x1, ascender, descender) in original pixels"""
    return [(int(2.2 * size) + k * int(3.4 * size), 120, 1500, float(size), float(size) / 3.0) for k in range(3)
            if int(2.2 * size) + k * int(3.4 * size) + size < PAGE_HW[0]]


def adaptive_parsenet(init_ds=4, adaptive=True, max_mp=5):
    """the REAL TorchParseNet.get_maps_with_optimal_resolution / get_med_height (adaptive down-sampling, state kept in last_downsample)
    around a renderer that draws the maps of the current page description at whatever resolution is requested"""
    import types
    from pero_ocr.layout_engines.torch_parsenet import TorchParseNet
    try:
        import unittest.mock
        import torch
        from pero_ocr.layout_engines import torch_parsenet
        with unittest.mock.patch.object(torch_parsenet.torch.jit, 'load', lambda *a, **kw: None):
            pn = TorchParseNet('stub-model', torch.device('cpu'), downsample=init_ds, max_mp=max_mp, adaptive_downsample=adaptive)
    except Exception:  # noqa  (fall back to setting the constructor's attributes by hand)
        pn = object.__new__(TorchParseNet)
        d = {k: v.default for k, v in inspect.signature(TorchParseNet.__init__).parameters.items() if v.default is not inspect.Parameter.empty}
        pn.max_megapixels = max_mp
        pn.detection_threshold = d['detection_threshold']
        pn.adaptive_downsample = adaptive
        pn.init_downsample = pn.last_downsample = init_ds
        pn.downsample_line_pixel_adapt_threshold = 100
        pn.min_line_processing_height, pn.max_line_processing_height, pn.optimal_line_processing_height = 9, 15, 12
        pn.min_downsample, pn.max_downsample = 1, 8
    pn.truth = []
    pn.rot = 0

    def get_maps(self, img, downsample):
        H, W = int(img.shape[0] / downsample), int(img.shape[1] / downsample)
        maps = np.zeros((H, W, 5), dtype=np.float32)
        for (y, x0, x1, asc, desc) in self.truth:
            yy, a, b = int(round(y / downsample)), int(round(x0 / downsample)), int(round(x1 / downsample))
            maps[max(yy - 8, 0):yy + 9, a:b + 1, 0] = asc / downsample
            maps[max(yy - 8, 0):yy + 9, a:b + 1, 1] = desc / downsample
            maps[yy, a:b + 1, 2] = 1.0
        return maps
    pn.get_maps = types.MethodType(get_maps, pn)
    return pn


def check_adaptive(case, ctx):
    import copy
    hist = [PRINT_SIZES[i] for i in case['adaptive']]
    rot = case['rot']
    eng = copy.copy(engine())
    cfg = case.get('cfg', 0)
    adaptive, max_mp = cfg not in (1, 2), (0.1 if cfg in (2, 3) else 5)      # 0.1: the 4.3 MP page exceeds the budget, the factor used is sqrt(4.32 / 0.1) = 6.6
    eng.parsenet = adaptive_parsenet(adaptive=adaptive, max_mp=max_mp)
    if cfg in (2, 3):
        ctx.tag('page-exceeds-the-pixel-budget')
    res = None
    for size in hist:
        truth = page_lines(size)
        if rot:
            img = np.zeros((PAGE_HW[1], PAGE_HW[0], 3), dtype=np.uint8)      # the page as scanned: text runs vertically
        else:
            img = np.zeros((PAGE_HW[0], PAGE_HW[1], 3), dtype=np.uint8)
        eng.parsenet.truth = truth
        ctx.reseed()
        res = eng.detect(img, rot=rot)
    ctx.executed(len(hist))
    ctx.state(('adaptive', tuple(hist), rot, cfg, round(float(getattr(eng.parsenet, 'last_downsample', 0)), 3)))
    p_list, b_list, h_list, t_list = res
    truth = page_lines(hist[-1])
    desc = (f'pages with print sizes {hist} (ascender px) analysed in turn, rotation {rot}, adaptive={adaptive}, '
            f'max_mp={max_mp}; last page lines {truth}')
    K = f'{ID}/adaptive-downsampling'
    if len(b_list) != len(truth):
        ctx.violation('one-line-per-ridge', f'{K}/line-count', f'{desc}: {len(b_list)} lines for {len(truth)} ridges')
        return
    # rotated pass: map the truth (given in the rotated frame) back to the page
    Hr, Wr = PAGE_HW
    got = sorted([np.asarray(b, dtype=float) for b in b_list], key=lambda b: (b[:, 1].mean() if not rot else -b[:, 0].mean()))
    hts = [h for _, h in sorted(zip([(np.asarray(b)[:, 1].mean() if not rot else -np.asarray(b)[:, 0].mean()) for b in b_list], h_list))]
    for (y, x0, x1, asc, dsc), b, h in zip(truth, got, hts):
        if rot:
            b = np.stack([b[:, 1], Hr - b[:, 0]], axis=1)        # back into the rotated frame (within a pixel)
        tol = 3 * 8 + 2
        if nabs(b[0, 0] - x0) > tol or nabs(b[-1, 0] - x1) > tol or nmax(np.abs(b[:, 1] - y)) > 2 * 8 + 2:
            ctx.violation('end-points-match', f'{K}/coordinates-off',
                          f'{desc}: baseline {b.round(1).tolist()} should run from ({x0},{y}) to ({x1},{y}) (tolerance {tol} px)')
            return
        if nabs(h[0] - asc) > 0.15 * asc + 8 or nabs(h[1] - dsc) > 0.15 * dsc + 8:
            ctx.violation('heights-match', f'{K}/heights-off', f'{desc}: heights {list(map(float, h))}, painted ({asc}, {dsc})')
            return
    ctx.outcome(('adaptive', round(float(getattr(eng.parsenet, 'last_downsample', 0)), 2)))
    if len(hist) > 1 and hist[-1] != hist[-2]:
        ctx.nontrivial(('adaptive', tuple(hist), rot), 'print-size-changes-between-pages')
    if nabs(float(getattr(eng.parsenet, 'last_downsample', 0)) - 4) > 1e-9:
        ctx.tag('adaptive-factor-changed')


class StubParseNet:
    """reads the 5 detection maps out of the (float) image, channel k of the image = map k, strided by ds"""
    def __init__(self, ds):
        self.ds = ds

    def get_maps_with_optimal_resolution(self, image):
        return np.ascontiguousarray(image[::self.ds, ::self.ds, :]).astype(np.float32), self.ds


def inverse_rot90(points, k, rotated_shape):
    """exact map from coordinates (x', y') in rot90(I, k) back to coordinates in I"""
    p = np.asarray(points, dtype=float)
    Hr, Wr = rotated_shape[:2]
    x, y = p[:, 0], p[:, 1]
    if k == 0:
        return p.copy()
    if k == 1:      # rot90(I)[i, j] = I[j, W-1-i]  with  W = Hr
        return np.stack([Hr - 1 - y, x], axis=1)
    if k == 2:
        return np.stack([Wr - 1 - x, Hr - 1 - y], axis=1)
    return np.stack([y, Wr - 1 - x], axis=1)


def check_rot(case, ctx):
    import copy
    k, ds = case['rot'], case['ds']
    shape_m = ROT_SHAPES[case['shape']]                       # shape of the map in the ROTATED frame
    rows = [0, 1, 2]
    ridges = []
    for n, a in enumerate(case['combo']):
        v = list(ALPHA8[a])
        v[1] = min(v[1], 2)                                   # lengths that fit the small maps
        ridges.append(ridge_geometry([rows[n] if shape_m[0] > 80 else n] + v, shape_m))
    if case.get('same_row') and len(ridges) == 2 and shape_m[1] >= 96:
        # two lines whose first baseline points sit on the same row (two columns of text)
        g0, g1 = ridges
        g0['x0'], g0['x1'], g0['slope'] = 5, 30, 0.0
        g1['row'], g1['x0'], g1['x1'], g1['slope'] = g0['row'], 55, 85, 0.0
    maps_r = paint(ridges, shape_m)
    img_r = np.repeat(np.repeat(maps_r, ds, axis=0), ds, axis=1)        # image in the rotated frame
    rem = tuple(case.get('rem', (0, 0)))
    if any(rem):                                                        # rem[0] more rows / rem[1] more columns (blank) than a multiple of ds
        img_r = np.pad(img_r, ((0, rem[0]), (0, rem[1]), (0, 0)))
    img = np.rot90(img_r, k=-k).copy()                                  # the page: rot90(img, k) == img_r
    ctx.state((k, case['shape'], ds, tuple(case['combo']), case.get('same_row', 0)) + ((rem,) if 'rem' in case else ()))
    eng = copy.copy(engine())
    eng.parsenet = StubParseNet(ds)
    ctx.reseed()
    p1, b1, h1, t1 = eng.detect(img.copy(), rot=k)
    ctx.reseed()
    p0, b0, h0, t0 = eng.detect(img_r.copy(), rot=0)
    ctx.executed(2)
    desc = f'rotation {k}, page {img.shape[:2]}, ds={ds}, ridges (in the rotated frame) {ridges}'
    if any(rem):
        desc += f' (page sides modulo ds, as analysed: rows {img_r.shape[0] % ds}, columns {img_r.shape[1] % ds})'
    K = f'{ID}/detect/rot{k}'
    sfx = f'/{REM_KEY}' if any(rem) else ''
    if not check_lines(b0, h0, t0, ridges, ds, ctx, f'{ID}/detect/unrotated', desc, case):
        return
    if len(b1) != len(b0) or len(p1) != len(p0):
        ctx.violation('rotated-pass-in-original-coordinates', f'{K}/different-layout', f'{desc}: {len(b1)} lines / {len(p1)} regions vs {len(b0)} / {len(p0)} un-rotated', case)
        return
    for name, got, ref in (('baseline', b1, b0), ('outline', t1, t0), ('region', p1, p0)):
        for g, r in zip(got, ref):
            want = inverse_rot90(r, k, img_r.shape)
            g = np.asarray(g, dtype=float)
            if g.shape != want.shape or nmax(np.abs(g - want)) > 1.0 + 1e-3:      # outlines are float32
                off = float(np.abs(g - want).max()) if g.shape == want.shape else None
                ctx.violation('rotated-pass-in-original-coordinates', f'{K}/{name}-not-in-original-coordinates{sfx}',
                              f'{desc}: {name} {g.round(1).tolist()} should be {want.round(1).tolist()} in the un-rotated page (max offset {off})', case)
                return
    if [list(map(float, h)) for h in h1] != [list(map(float, h)) for h in h0]:
        ctx.violation('heights-match', f'{K}/heights-differ', f'{desc}: {h1} vs {h0}', case)
        return
    # environment answer: the network runs out of memory (once) while this page is analysed.  The engine may report that; a layout it returns
    # nevertheless is the layout of the page
    if ds == 1 or case.get('same_row'):
        from mc import faults
        inj = faults.Injector([(eng.parsenet, 'get_maps_with_optimal_resolution')],
                              lambda name: RuntimeError('CUDA out of memory. Tried to allocate 2.00 GiB (injected)'))
        for kk, site, (what, val) in inj.explore(lambda: (ctx.reseed(), eng.detect(img.copy(), rot=k))[1]):
            ctx.executed()
            if kk is None:
                continue
            ctx.tag('network-out-of-memory-injected')
            if what == 'raised':
                continue
            p2, b2, h2, t2 = val
            if not close_result((p1, b1, h1, t1), (p2, b2, h2, t2)):
                ctx.violation('rotated-pass-in-original-coordinates', f'{K}/layout-returned-after-an-out-of-memory-failure-differs',
                              f'{desc}: the network call #{kk} raised an out-of-memory RuntimeError, detect() returned baselines '
                              f'{[np.asarray(b).round(1).tolist() for b in b2]} instead of {[np.asarray(b).round(1).tolist() for b in b1]}', case)
                return
    ctx.outcome((k, len(b1), len(p1)))
    if case.get('same_row'):
        ctx.tag('two-lines-starting-on-the-same-row')
    if any(rem) and k and b1:
        ctx.tag(REM_KEY)
    if k and shape_m[0] != shape_m[1] and b1:
        ctx.nontrivial((k, case['shape'], ds, tuple(case['combo'])), 'rotated-non-square-pages')


ROT_SEQS = [(1, 3), (3, 1), (0, 2), (2, 0), (0, 1, 3)]       # orientations analysed in turn, on ONE engine object, for one page


class ImageNet:
    """stands for the network file: the three image channels ARE the ascender map (x 8), the descender map (x 8) and the baseline response"""
    def __call__(self, x):
        import torch
        out = torch.zeros((x.shape[0], 5, x.shape[2], x.shape[3]), dtype=torch.float32)
        out[:, 0] = x[:, 0] * (255.0 / 8.0)
        out[:, 1] = x[:, 1] * (255.0 / 8.0)
        out[:, 2] = x[:, 2]
        return out, None


def image_engine(ds):
    """a LayoutEngine whose REAL TorchParseNet.get_maps runs (resize, padding to a multiple of 64, tensor conversion, cropping) around ImageNet"""
    import contextlib
    import io
    import unittest.mock
    import torch
    from pero_ocr.layout_engines.cnn_layout_engine import LayoutEngine
    from pero_ocr.layout_engines import torch_parsenet
    with unittest.mock.patch.object(torch_parsenet.torch.jit, 'load', lambda *a, **kw: ImageNet()), contextlib.redirect_stdout(io.StringIO()):
        return LayoutEngine('stub-model', torch.device('cpu'), downsample=ds, adaptive_downsample=False)


def check_rotseq(case, ctx):
    """the orientations of ONE page analysed one after the other by ONE engine (what the page parser does with MULTI_ORIENTATION): each pass must
    equal the pass of a fresh engine over the explicitly turned page, mapped back exactly"""
    import contextlib
    import io
    seq, ds = case['rotseq'], case['ds']
    shape_m = ROT_SHAPES[case['shape']]
    ridges = []
    for n, a in enumerate(case['combo']):
        v = list(ALPHA8[a])
        v[1] = min(v[1], 2)
        v[5] = 0                                                # (no end-point channel in a three-channel image)
        ridges.append(ridge_geometry([n] + v, shape_m))
    maps = paint(ridges, shape_m)
    enc = np.zeros(shape_m + (3,), dtype=np.uint8)
    enc[:, :, 0] = np.clip(np.round(maps[:, :, 0] * 8), 0, 255)
    enc[:, :, 1] = np.clip(np.round(maps[:, :, 1] * 8), 0, 255)
    enc[:, :, 2] = np.clip(np.round(maps[:, :, 2] * 255), 0, 255)
    img_r = np.repeat(np.repeat(enc, ds, axis=0), ds, axis=1)
    rem = tuple(case.get('rem', (0, 0)))
    if any(rem):                                                # page sides that are not multiples of ds: the real resize rounds the map shape
        img_r = np.pad(img_r, ((0, rem[0]), (0, rem[1]), (0, 0)))
    sfx = f'/{REM_KEY}' if any(rem) else ''
    rem_found = 0
    page = np.rot90(img_r, k=-seq[0]).copy()                    # the first pass of the sequence sees the ridges horizontally
    ctx.state(('rotseq', tuple(seq), case['shape'], ds, tuple(case['combo'])) + ((rem,) if 'rem' in case else ()))
    eng = image_engine(ds)
    desc = f'page {page.shape[:2]} analysed by one engine in orientations {seq} in turn, ds={ds}, ridges (as seen in orientation {seq[0]}) {ridges}'
    found = 0
    for k in seq:
        with contextlib.redirect_stdout(io.StringIO()):
            ctx.reseed()
            p1, b1, h1, t1 = eng.detect(page.copy(), rot=k)
            turned = np.rot90(page, k=k).copy()
            ctx.reseed()
            p0, b0, h0, t0 = image_engine(ds).detect(turned, rot=0)
        ctx.executed(2)
        K = f'{ID}/detect/orientations-in-turn-on-one-engine/rot{k}'
        found += len(b0)
        if len(b1) != len(b0) or len(p1) != len(p0):
            ctx.violation('rotated-pass-in-original-coordinates', f'{K}/different-layout',
                          f'{desc}: pass {k} finds {len(b1)} lines / {len(p1)} regions, a fresh engine on the turned page {len(b0)} / {len(p0)}', case)
            return
        for name, got, ref in (('baseline', b1, b0), ('outline', t1, t0), ('region', p1, p0)):
            for g, r in zip(got, ref):
                want = inverse_rot90(r, k, turned.shape)
                g = np.asarray(g, dtype=float)
                if g.shape != want.shape or nmax(np.abs(g - want)) > 1.0 + 1e-3:
                    off = float(np.abs(g - want).max()) if g.shape == want.shape else None
                    ctx.violation('rotated-pass-in-original-coordinates', f'{K}/{name}-not-in-original-coordinates{sfx}',
                                  f'{desc}: pass {k}: {name} {g.round(1).tolist()} should be {want.round(1).tolist()} (max offset {off})', case)
                    return
        if k and b1:
            rem_found += 1
        if [list(map(float, h)) for h in h1] != [list(map(float, h)) for h in h0]:
            ctx.violation('heights-match', f'{K}/heights-differ', f'{desc}: pass {k}: {h1} vs {h0}', case)
            return
        # environment answer: the network itself (inside the real TorchParseNet) runs out of memory once during this pass
        if k == seq[-1] and ds == 1:
            from mc import faults
            inj = faults.Injector([(eng.parsenet, 'net')], lambda name: RuntimeError('CUDA out of memory. Tried to allocate 2.00 GiB (injected)'))

            def again():
                with contextlib.redirect_stdout(io.StringIO()):
                    ctx.reseed()
                    return eng.detect(page.copy(), rot=k)
            for kk, site, (what, val) in inj.explore(again):
                ctx.executed()
                if kk is None or what == 'raised':
                    if kk is not None:
                        ctx.tag('network-out-of-memory-injected')
                    continue
                ctx.tag('network-out-of-memory-injected')
                p2, b2, h2, t2 = val
                if not close_result((p1, b1, h1, t1), (p2, b2, h2, t2)):
                    ctx.violation('rotated-pass-in-original-coordinates', f'{K}/layout-returned-after-an-out-of-memory-failure-differs',
                                  f'{desc}: pass {k}: the network call #{kk} raised an out-of-memory RuntimeError, detect() returned baselines '
                                  f'{[np.asarray(b).round(1).tolist() for b in b2]} instead of {[np.asarray(b).round(1).tolist() for b in b1]}', case)
                    return
    ctx.outcome(('rotseq', tuple(seq), found))
    if any(rem) and rem_found:
        ctx.tag(REM_KEY + '/real-network-resize')
    if found >= len(seq):
        ctx.nontrivial(('rotseq', tuple(seq), case['shape'], ds, tuple(case['combo'])), 'orientations-in-turn-on-one-engine')


def check_many(case, ctx):
    """a tall map with more than 127 / 255 separate ridges (component labels beyond the range of narrow integer types)"""
    n, ds = case['many'], case['ds']
    shape = (14 * n + 20, 96)
    ridges = [{'row': 10 + 14 * i, 'x0': 8 + 4 * (i % 2), 'x1': 70 + (i % 3) * 6, 'slope': 0.0, 'thick': 1, 'h': (4.0 + (i % 2), 2.0), 'ep': False}
              for i in range(n)]
    ctx.state(('many', n, ds))
    maps = paint(ridges, shape)
    ctx.reseed()
    b_list, h_list, t_list = engine().parse(maps.copy(), ds)
    ctx.executed()
    desc = f'{n} horizontal ridges, 14 rows apart, on a {shape[0]} x {shape[1]} map, ds={ds}'
    if check_lines(b_list, h_list, t_list, ridges, ds, ctx, f'{ID}/parse/many-ridges', desc, case) and \
            reparse_same_array(engine(), maps, ds, (b_list, h_list, t_list), ridges, ctx, f'{ID}/parse/many-ridges', desc, case):
        ctx.outcome(('many', len(b_list)))
        ctx.nontrivial(('many', n, ds), 'several-ridges')
        ctx.tag('more-than-255-ridges' if n > 255 else 'more-than-127-ridges')


def same_result(r1, r2):
    (b1, h1, t1), (b2, h2, t2) = r1, r2
    return len(b1) == len(b2) and all(np.array_equal(np.asarray(x), np.asarray(y)) for x, y in zip(b1, b2)) and \
        all(np.array_equal(np.asarray(x), np.asarray(y)) for x, y in zip(h1, h2)) and all(np.array_equal(np.asarray(x), np.asarray(y)) for x, y in zip(t1, t2))


def close_result(r1, r2, tol=7.0):
    """the layout returned after a failure of the network may come from a second attempt at a (moderately) coarser resolution: same lines, coordinates
    within 3 map px of an up to two times coarser map (+1), heights within 25 % + 2 px"""
    (p1, b1, h1, t1), (p2, b2, h2, t2) = r1, r2
    if len(b1) != len(b2) or len(p1) != len(p2):
        return False
    for x, y in zip(b1, b2):
        x, y = np.asarray(x, dtype=float), np.asarray(y, dtype=float)
        if nmax(np.abs(x[0] - y[0])) > tol or nmax(np.abs(x[-1] - y[-1])) > tol:
            return False
    for x, y in zip(h1, h2):
        if any(nabs(float(a) - float(b)) > 0.25 * nabs(float(a)) + 2 for a, b in zip(x, y)):
            return False
    for x, y in zip(list(t1) + list(p1), list(t2) + list(p2)):
        x, y = np.asarray(x, dtype=float), np.asarray(y, dtype=float)
        if nabs(x[:, 0].min() - y[:, 0].min()) > 2 * tol or nabs(x[:, 0].max() - y[:, 0].max()) > 2 * tol or \
                nabs(x[:, 1].min() - y[:, 1].min()) > 2 * tol or nabs(x[:, 1].max() - y[:, 1].max()) > 2 * tol:
            return False
    return True


def reparse_same_array(eng, maps, ds, first, ridges, ctx, K, desc, case, times=6):
    """the caller keeps the network output and decodes it again (other engine options, a second pass): every decoding of the same maps object
    gives the lines of the first one"""
    m = maps.copy()
    for i in range(times):
        ctx.reseed()
        r = eng.parse(m, ds)
        ctx.executed()
        if i > 0 and not same_result(first, r):
            ctx.violation('heights-match', f'{K}/same-maps-object-decoded-again-differs',
                          f'{desc}: decoding #{i + 1} of the same maps array returns heights {[list(map(float, h)) for h in r[1]][:4]}..., the first decoding '
                          f'{[list(map(float, h)) for h in first[1]][:4]}... ({len(r[0])} vs {len(first[0])} lines)', case)
            return False
    ctx.tag('same-maps-object-decoded-again')
    return True


SKEW_SLOPES = [0.06, -0.06, 0.03]          # rise over 410 px: 24.6 / 12.3 rows - more / less than the 15 rows between the lines


def check_skew(case, ctx):
    """a skewed page: long parallel ridges 15 rows apart whose rise over their length exceeds their distance (the bounding boxes of neighbouring
    ridges overlap), every line with its own print size"""
    sl, n, ds = SKEW_SLOPES[case['skew']], case['n'], case['ds']
    shape = (60 + 15 * n + 30, 440)
    hts = [(6.0, 2.0), (10.0, 5.0), (3.0, 3.0), (8.0, 4.0)]
    top = 35 if sl > 0 else 35 + 26
    ridges = [{'row': top + 15 * i, 'x0': 10, 'x1': 420, 'slope': sl, 'thick': 1, 'h': hts[i], 'ep': False} for i in range(n)]
    ctx.state(('skew', case['skew'], n, ds))
    maps = paint(ridges, shape)
    ctx.reseed()
    first = engine().parse(maps.copy(), ds)
    ctx.executed()
    desc = f'{n} parallel ridges of slope {sl}, 15 rows apart, x = 10..420, on a {shape[0]} x {shape[1]} map, ds={ds}'
    if check_lines(first[0], first[1], first[2], ridges, ds, ctx, f'{ID}/parse/skewed-page', desc, case):
        ctx.outcome(('skew', len(first[0])))
        ctx.nontrivial(('skew', case['skew'], n, ds), 'several-ridges')
        if nabs(sl) * 410 > 15:
            ctx.tag('skewed-page-neighbouring-ridges-overlap-in-rows')


def check_border(case, ctx):
    """one ridge next to the top border of the map and one next to the bottom border, one of them faint: the two borders are not neighbours"""
    d, ds = case['border'], case['ds']
    H, W = MAP_SHAPE
    faint, strong = 0.7, 1.0
    ridges = [{'row': d, 'x0': 30, 'x1': 150, 'slope': 0.0, 'thick': 3, 'h': (5.0, 2.0), 'ep': False, 'resp': strong if case['strong_top'] else faint},
              {'row': H - 1 - d, 'x0': 30, 'x1': 150, 'slope': 0.0, 'thick': 3, 'h': (11.0, 4.0), 'ep': False, 'resp': faint if case['strong_top'] else strong}]     # (larger print at the bottom)
    ctx.state(('border', d, case['strong_top'], ds))
    maps = paint(ridges, MAP_SHAPE)
    ctx.reseed()
    b_list, h_list, t_list = engine().parse(maps.copy(), ds)
    ctx.executed()
    desc = f'ridges in rows {d} (response {ridges[0]["resp"]}) and {H - 1 - d} (response {ridges[1]["resp"]}) of a {H} x {W} map, ds={ds}'
    if check_lines(b_list, h_list, t_list, ridges, ds, ctx, f'{ID}/parse/ridges-at-the-map-borders', desc, case):
        ctx.outcome(('border', len(b_list)))
        ctx.tag('ridges-next-to-the-map-borders')


def check_case(case, ctx):
    if 'border' in case:
        return check_border(case, ctx)
    if 'skew' in case:
        return check_skew(case, ctx)
    if 'many' in case:
        return check_many(case, ctx)
    if 'rotseq' in case:
        return check_rotseq(case, ctx)
    if 'adaptive' in case:
        return check_adaptive(case, ctx)
    if 'rot' in case:
        check_rot(case, ctx)
    else:
        check_parse(case, ctx)


def describe(tier):
    return {
        'rule': 'single ridges: full product row(4) x offset(2) x length(4) x slope(3) x thickness(3) x heights(3) x end-points(2) x ds; pairs / triples / same-row '
                'pairs over the 8-variant ridge alphabet; rotations 0..3 x 3 page shapes x ds{1,4} x all 1-2 ridge combinations. state = distinct map. '
                'Page sides modulo the factor: all (rows, columns) residue classes for the factors in rem_ds x rotations x page shapes x 2 ridge sets (stub network), '
                'and for rem_ds_real through the real get_maps with orientations 0,1,2,3 in turn. Non-trivial: maps with several ridges; rotated passes on non-square pages.',
        'bounds': BOUNDS[tier],
        'alphabets': {'rows': ROWS, 'x0': X0S, 'lengths': LENS, 'slopes': SLOPES, 'thickness': THICK, 'heights': HTS, 'ds': DSS, 'ridge_variants': ALPHA8,
                      'rotated_map_shapes': ROT_SHAPES},
        'assumptions': ['end points within 3 map px, rows within (1 + thickness/2) map px (+ slope x 3), heights exact for constant maps',
                        'the rotated pass is compared with the exact inverse rot90 of the layout decoded from the rotated image, tolerance 1 px'],
        'min_nontrivial': 100, 'required_tags': [REM_KEY, REM_KEY + '/real-network-resize', 'same-maps-object-decoded-again', 'skewed-page-neighbouring-ridges-overlap-in-rows', 'network-out-of-memory-injected', 'orientations-in-turn-on-one-engine', 'several-ridges', 'with-end-point-responses', 'sloped-ridges', 'rotated-non-square-pages',
                          'two-lines-starting-on-the-same-row', 'print-size-changes-between-pages', 'adaptive-factor-changed', 'page-exceeds-the-pixel-budget', 'more-than-255-ridges', 'non-default-engine-options', 'ridges-next-to-the-map-borders'],
    }
