"""C15 - Stitching parts of an over-long line never loses text.

Space: (a) ALL lists of 1..3 part transcriptions over {a,b} with part length 0..3 (empty parts in every position,
unrelated parts, accidental overlaps), (b) all pairs of parts of length <= 4 over {a,b,c}, (c) true overlapping windows:
every text over {a,b} of length Lmin..Lmax cut into windows of every width/overlap, clean and with one substituted or
deleted character inside an overlap.  Each list is merged with logits of exactly len rows and of len+2 rows; row i of part
p is the vector (p, i), so the provenance of every merged row is observable.

(d) end to end: the REAL BaseEngineLineOCR.process_lines(model_type="transformer") (real constructor, real window splitting with 25 %
overlap, real span bookkeeping and merge) around a stub run_ocr that reads characters painted into the line images: ALL ordered lists of
1..2 (quick) / 1..3 (thorough) lines over a 9-text alphabet (shorter / equal / longer than the maximal line width, periodic text, a blank
stretch that yields an empty part) x batch size {1, 4}.

(e) environment answers: the line lists of (d) again, with ONE call that process_lines makes to a dependency failing - the recogniser (run_ocr)
raising the CUDA out-of-memory RuntimeError, a numpy allocation raising MemoryError - every such call in turn (mc/faults.py Injector.explore),
plus all lists of 4 (quick) / 5 (thorough) lines over a 3-text alphabet at batch size 1, which need several recogniser calls (the failure
also comes after an earlier batch succeeded).  The call may raise (any exception); every line it RETURNS is judged like any other result.

(f) histories on one live engine: constructed with max_line_width W0 in {none, 32, 64, 128}, used or not, then `engine.max_line_width`
assigned 1 (quick) / 1..2 (thorough, single lines) other values of {32, 64, 128}, process_lines after every assignment: each use must equal the reference
merge of the line's 25 % windows for the width that is configured at the time of the call, and must not lose painted characters.

Oracle: a boring reference model with explicit slice arithmetic (cut ceil(o/2) characters from the text merged so far,
floor(o/2) from the next part; o = overlap detected between the text merged so far and the next part).
"""
import itertools

import numpy as np

ID = 'C15'

MANIFEST = dict(
    technique='explicit-state enumeration of all part lists (input tree), all window splittings, and all short line lists through the real process_lines(model_type=transformer) with a stub run_ocr; real merge vs a reference model with provenance-tagged logits',
    text='Bounded exhaustive: every list of 1-3 parts of length 0-3 over {a,b}, every pair of parts up to length 4 over {a,b,c}, and every window splitting (all widths/overlaps, clean or with one noisy character in an overlap) of every text over {a,b} of length 5-7 (quick) / 5-9 (thorough); text and provenance-tagged logits of the real merge must equal the reference model, and the statement-level facts (length = sum of parts minus overlaps, one logit row per character, first/last part kept, zero overlap = concatenation) are checked separately; every list of 1-2 (quick) / 1-3 (thorough) painted lines over a 9-text alphabet goes through the real window splitting, span bookkeeping and merge of process_lines, and each line must equal the reference merge of its own windows. Added sub-sweeps: the real engine end to end on painted lines, a subsequence clause for noise-free windows, every reading of a text of up to 6 (quick) / 8 (thorough) characters as two true windows (unique exact overlap => the merged text is the text), and parts of 260 characters. A fourth two-window alphabet: letter, combining accent and precomposed letter. Environment answers: the engine line lists again with one dependency call of process_lines failing (the recogniser raising an out-of-memory RuntimeError, a numpy allocation raising MemoryError; every call in turn, also in a later batch of a 4-line list) - the call may raise, but every line it returns must still be the merge of all of its windows. Histories on one live engine: max_line_width assigned (lowered / raised, before or after the first use) between calls of process_lines - every call must split and stitch for the width configured at that time.',
    note='The overlap detector (find_best_overlap) is taken from the implementation and only sanity-checked (range, CER<1); alphabet and lengths are bounded.',
    ref='3/C15')

BOUNDS = {'quick': dict(Lmin=5, Lmax=7, pair_len=4, engine_lines=2, two_len=6, fault_lines=2, alloc_fault_lines=2, fault_long_lines=4, reconf_lines=1, reconf_depth=1),
          'thorough': dict(Lmin=5, Lmax=9, pair_len=5, engine_lines=3, two_len=8, fault_lines=3, alloc_fault_lines=2, fault_long_lines=5, reconf_lines=2, reconf_depth=2)}
BOUNDS['replay'] = BOUNDS['quick']


def strings(alpha, maxlen):
    return [''.join(p) for n in range(maxlen + 1) for p in itertools.product(alpha, repeat=n)]


def setup(tier):
    pass


def shards(tier):
    b = BOUNDS[tier]
    out = [{'kind': 'lists', 'n': 1}, {'kind': 'lists', 'n': 2}]
    S = strings('ab', 3)
    for i in range(len(S)):
        out.append({'kind': 'lists', 'n': 3, 'first': i})
    P = strings('abc', b['pair_len'])
    for i in range(0, len(P), 40):
        out.append({'kind': 'pairs', 'lo': i, 'hi': min(len(P), i + 40)})
    for L in range(b['Lmin'], b['Lmax'] + 1):
        for w in range(2, L):
            out.append({'kind': 'windows', 'L': L, 'w': w})
    for f in range(len(ENGINE_TEXTS)):
        out.append({'kind': 'engine', 'first': f})
    for f in range(len(ENGINE_TEXTS)):
        out.append({'kind': 'engine-fault', 'first': f})
        out.append({'kind': 'engine-reconf', 'first': f})
    for f in FAULT_LONG_TEXTS:
        out.append({'kind': 'engine-fault-long', 'first': f})
    for L in range(1, b['two_len'] + 1):
        for first in 'abc':
            out.append({'kind': 'two', 'L': L, 'first': first})
    for ai in range(1, len(TWO_ALPHABETS)):
        for L in range(1, b['two_len']):
            out.append({'kind': 'two', 'L': L, 'alpha': ai})
    for i in range(len(LONG_PARTS)):
        out.append({'kind': 'longparts', 'i': i})
    for n in DISJOINT_N:
        out.append({'kind': 'disjoint', 'n': n})
    return out


DISJOINT_N = (20, 48, 49, 50, 64, 98, 103, 128, 161, 200)      # (1/i)*i rounds below 1 for i = 49, 98, 103, 107, 161, ...
LONG_PARTS = ((480, 260, 220), (500, 260, 130), (390, 260, 0), (520, 260, 260))       # (text length, end of part 1, start of part 2)


# alphabets of the two-window sweep: plain letters; with a character outside the Basic Multilingual Plane (two UTF-16 code units, one code
# point); with a blank (parts may consist of white space only); a letter, a combining accent and their precomposed form (texts that Unicode
# normalisation would shorten)
TWO_ALPHABETS = ['abc', ['\U0001d520', 'a', 'b'], [' ', 'a', 'b'], ['e', '\u0301', '\u00e9']]


def long_text(n, seed=7):
    x, out = seed, []
    for _ in range(n):
        x = (x * 1103515245 + 12345) % (2 ** 31)
        out.append('abcdefgh'[(x >> 16) % 8])
    return ''.join(out)


CW = 8                       # pixels per painted character
MLW = 64                     # max_line_width of the stub engine: 8 characters per window, overlap 2, step 6
ENGINE_TEXTS = ['abc', 'abcdefgh', 'abcdefghi', 'qrstuvwxyzabcd', 'hgfedcbazyxwvut', 'mnopqrstuvwxyzabcdefghij', 'abababababababab',
                'abcdefghijkl________mnopqr', 'zyxwvutsrqponmlkjihgfedcbaz']


def engine_windows(text, mlw=MLW):
    """the 25 %-overlapping windows of a painted text for an engine whose max_line_width is mlw (None: no limit configured)"""
    if mlw is None:
        return [text]
    n, ov = mlw // CW, (mlw // 4) // CW
    if len(text) <= n:
        return [text]
    parts, start, end = [], 0, n
    while end < len(text):
        parts.append(text[start:end])
        start += n - ov
        end += n - ov
    parts.append(text[start:end])
    return parts


def paint_text(text):
    img = np.zeros((8, CW * len(text), 3), dtype=np.uint8)
    for k, ch in enumerate(text):
        if ch != '_':
            img[:, CW * k:CW * (k + 1), :] = ord(ch) - 96
    return img


def make_stub_engine(batch_size, mlw=MLW):
    import json
    import os
    import torch
    from pero_ocr.ocr_engine.line_ocr_engine import BaseEngineLineOCR
    d = '/verif/.cache/stubs'
    os.makedirs(d, exist_ok=True)
    js = os.path.join(d, f'c15-transformer-{os.getpid()}.json')
    with open(js, 'w') as f:
        cfg = {'line_px_height': 8, 'line_vertical_scale': 1.0, 'checkpoint': 'none.pt', 'characters': [chr(97 + i) for i in range(26)],
               'net_name': 'stub'}
        if mlw is not None:
            cfg['max_line_width'] = mlw
        json.dump(cfg, f)
    eng = BaseEngineLineOCR(js, torch.device('cpu'), batch_size=batch_size, model_type='transformer')
    os.remove(js)
    seen = []

    def run_ocr(batch_data):
        pad = eng.line_padding_px
        texts, logits = [], []
        for row in batch_data:
            vals = row[4, pad + CW // 2::CW, 0]
            t = ''.join(chr(96 + int(v)) for v in vals if v > 0)
            texts.append(t)
            lg = np.full((len(t) + 1, 28), -5.0, dtype=np.float32)
            for i, ch in enumerate(t):
                lg[i, ord(ch) - 97] = 5.0 + 0.01 * i
            logits.append(lg)
        seen.append(list(texts))
        return texts, logits
    eng.run_ocr = run_ocr
    return eng, seen


RECONF_WIDTHS = (32, 64, 128)        # max_line_width letters of the re-configuration histories: 4 / 8 / 16 characters per window, overlap 1 / 2 / 4
FAULT_LONG_TEXTS = (0, 3, 5)         # indices into ENGINE_TEXTS: one window / two windows / four windows
ENGINE_FAULTS = ('oom', 'alloc')     # environment answers: the recogniser raises an out-of-memory RuntimeError / a numpy allocation raises MemoryError


def reconf_histories(depth):
    """every history: engine constructed with W0 (None = no max_line_width in the configuration), then max_line_width assigned 1..depth
    times (each time a value different from the current one), with / without a use of the engine before the first assignment"""
    out = []
    for w0 in (None,) + RECONF_WIDTHS:
        hists = [[w0]]
        for _ in range(depth):
            hists = [h + [w] for h in hists for w in RECONF_WIDTHS if w != h[-1]]
            for h in hists:
                for use_first in (1, 0):
                    out.append((h, use_first))
    return out


def engine_fault_injector(eng, fault):
    from mc import faults
    if fault == 'oom':
        return faults.Injector([(eng, 'run_ocr')],
                               lambda name: RuntimeError('CUDA out of memory. Tried to allocate 2.00 GiB (injected by the harness)'))
    return faults.Injector(faults.numpy_allocators(), faults.memory_error)


def check_engine_result(ctx, K, desc, texts, mlw, tr, lg, co, partial=False):
    """every line of one process_lines result against the reference merge of the line's own 25 % windows (width mlw); -> True if no violation.
    partial: the call survived a failing dependency - a line it reports as None was not returned and is not judged."""
    from pero_ocr.ocr_engine.line_ocr_engine import find_best_overlap
    if len(tr) != len(texts):
        ctx.violation('text-kept', f'{K}/result-count', f'{desc}: {len(tr)} results')
        return False
    facts = []
    for k, text in enumerate(texts):
        if partial and tr[k] is None:
            continue
        parts = [p.replace('_', '') for p in engine_windows(text, mlw)]
        ref = parts[0]
        overlaps = []
        for nxt in parts[1:]:
            o = int(find_best_overlap(ref, nxt))
            overlaps.append(o)
            ref = ref[:len(ref) - (o + 1) // 2] + nxt[o // 2:]
        it = iter(tr[k])
        if not all(ch in it for ch in text.replace('_', '')):
            ctx.violation('text-kept', f'{K}/line-loses-characters', f'{desc}: line {k} -> {tr[k]!r} lost characters of {text!r}')
            return False
        if tr[k] != ref:
            ctx.violation('text-kept', f'{K}/line-text-differs-from-merge-of-its-windows',
                          f'{desc}: line {k} -> {tr[k]!r}; its windows {parts} merge (overlaps {overlaps}) to {ref!r}')
            return False
        rows = lg[k].shape[0]
        if rows != len(tr[k]) or list(co[k]) != [0, len(tr[k])]:
            ctx.violation('one-logit-row-per-character', f'{K}/logit-rows-or-window',
                          f'{desc}: line {k}: {rows} logit rows, window {co[k]} for {len(tr[k])} characters')
            return False
        dense = np.asarray(lg[k].toarray()) if hasattr(lg[k], 'toarray') else np.asarray(lg[k])
        got = ''.join(chr(97 + int(np.argmax(np.where(r == 0, -80, r)))) for r in dense)
        if got != tr[k]:
            ctx.violation('one-logit-row-per-character', f'{K}/logit-rows-do-not-spell-the-text', f'{desc}: line {k}: rows spell {got!r}, text {tr[k]!r}')
            return False
        facts.append((k, parts, ref == text.replace('_', '')))
    return facts


def check_engine(case, ctx):
    texts = [ENGINE_TEXTS[i] for i in case['engine']]
    hist = case.get('mlw') or [MLW]
    fault = case.get('fault')
    plain = len(hist) == 1 and fault is None
    skey = ('engine', tuple(case['engine']), case['bs'])
    if not plain:
        skey += (tuple(hist), case.get('use_first', 1), fault)
    ctx.state(skey)
    eng, seen = make_stub_engine(case['bs'], hist[0])
    lens = []
    for step, mlw in enumerate(hist):
        if step:
            eng.max_line_width = mlw                     # the event: a public attribute of the live engine is assigned
        elif len(hist) > 1 and not case.get('use_first', 1):
            continue                                     # re-configured before its first use
        K = f'{ID}/engine' + ('/after-max_line_width-changed' if step else '')
        desc = (f'process_lines(model_type=transformer, max_line_width={mlw}) on painted texts {texts}, batch_size={case["bs"]}'
                + (f', engine constructed with max_line_width={hist[0]}, {"used, " if case.get("use_first", 1) else ""}then max_line_width '
                   f'assigned {hist[1:step + 1]}' if step else ''))
        if fault is not None and step == len(hist) - 1:
            if not check_engine_under_fault(case, ctx, eng, seen, texts, mlw, fault, K, desc):
                return
            continue
        tr, lg, co = eng.process_lines([paint_text(t) for t in texts])
        ctx.executed()
        facts = check_engine_result(ctx, K, desc, texts, mlw, tr, lg, co)
        if facts is False:
            return
        lens.append(tuple(len(t) for t in tr))
        for k, parts, restored in facts:
            if plain:
                if len(parts) > 1:
                    ctx.nontrivial(('engine', tuple(case['engine']), case['bs'], k), 'split-lines-merged')
                if '' in parts:
                    ctx.tag('engine-empty-part')
                if len(parts) > 1 and restored:
                    ctx.tag('engine-merge-restores-the-text')
            elif step and len(parts) > 1:
                ctx.nontrivial(skey + (step, k), 'engine-split-after-max_line_width-changed')
                prev = hist[step - 1]
                if prev is None or mlw < prev:
                    ctx.tag('engine-max_line_width-lowered-on-a-live-engine')
                else:
                    ctx.tag('engine-max_line_width-raised-on-a-live-engine')
                if not case.get('use_first', 1):
                    ctx.tag('engine-max_line_width-changed-before-the-first-use')
    if fault is None:
        ctx.outcome(('engine', tuple(lens)) if not plain else ('engine', lens[0]))


def check_engine_under_fault(case, ctx, eng, seen, texts, mlw, fault, K, desc):
    """every fault point of one process_lines call: the call may raise (accepted, whatever the exception); lines it returns obey the property"""
    inj = engine_fault_injector(eng, fault)
    calls = None
    split = any(len(engine_windows(t, mlw)) > 1 for t in texts)
    for k, site, (kind, val) in inj.explore(lambda: eng.process_lines([paint_text(t) for t in texts])):
        ctx.executed()
        if k is None:
            if kind == 'raised':
                raise val                                # no fault injected: as in the plain sweep
            calls = inj.count                        # dependency calls of the fault-free run (for 'oom': recogniser calls)
            if check_engine_result(ctx, K, desc, texts, mlw, *val) is False:
                return False
            continue
        name = 'recogniser-out-of-memory' if fault == 'oom' else 'allocation-failure'
        ctx.tag(f'engine-{name}-injected')
        if fault == 'oom' and calls == 1 and len(texts) > 1 and split:
            # the fault-free run handed all lines to the recogniser in ONE call: the failing batch holds several lines, one of them as parts
            ctx.nontrivial(('engine-fault', tuple(case['engine']), case['bs'], k), 'engine-out-of-memory-in-a-batch-of-several-lines-with-a-split-line')
        if fault == 'oom' and k > 0:
            ctx.tag('engine-out-of-memory-after-an-earlier-batch-succeeded')
        if kind == 'raised':
            ctx.tag('engine-fault-reported-to-the-caller')
            ctx.outcome(('engine-fault', 'raised', type(val).__name__))
            continue
        ctx.tag('engine-fault-survived')
        d = f'{desc}; environment: call {k} to a dependency ({site[2]} in {site[1]}) failed ({name}) and process_lines returned a result'
        if check_engine_result(ctx, f'{K}/after-{name}', d, texts, mlw, *val, partial=True) is False:
            return False
        ctx.outcome(('engine-fault', 'returned', tuple(None if t is None else len(t) for t in val[0])))
    return True


def windows(text, w, step):
    parts, start, end = [], 0, w
    while end < len(text):
        parts.append(text[start:end])
        start += step
        end += step
    parts.append(text[start:end])
    return parts


def run_shard(shard, ctx, tier):
    from mc.core import guarded_check
    import sys
    mod = sys.modules[__name__]
    b = BOUNDS[tier]
    if shard['kind'] == 'lists':
        S = strings('ab', 3)
        if shard['n'] == 3:
            firsts = [S[shard['first']]]
        else:
            firsts = S
        for f in firsts:
            for rest in itertools.product(S, repeat=shard['n'] - 1):
                guarded_check(mod, {'parts': [f] + list(rest)}, ctx)
    elif shard['kind'] == 'pairs':
        P = strings('abc', b['pair_len'])
        for a in P[shard['lo']:shard['hi']]:
            for c in P:
                guarded_check(mod, {'parts': [a, c]}, ctx)
    elif shard['kind'] == 'disjoint':
        # neighbouring parts without a single common symbol (a dotted leader followed by figures, a change of script), of every length class: no
        # suffix / prefix pair of any length is an overlap, the parts are concatenated unchanged
        n = shard['n']
        guarded_check(mod, {'parts': ['ab' * (n // 2) + 'a' * (n % 2), 'cd' * (n // 2) + 'c' * (n % 2)]}, ctx)
        guarded_check(mod, {'parts': ['.' * n, '12' * (n // 2) + '1' * (n % 2), '-' * n]}, ctx)
    elif shard['kind'] == 'longparts':
        # parts of more than 255 characters, overlaps on both sides of 127 / 255
        n, k, j = LONG_PARTS[shard['i']]
        T = long_text(n)
        guarded_check(mod, {'parts': [T[:k], T[j:]], 'two': T}, ctx)
    elif shard['kind'] == 'two':
        # every way of reading one text T as two true windows a = T[:k], b = T[j:] (j <= k), including a second window that only repeats
        # the end of the first one (k = len(T))
        L = shard['L']
        alpha = TWO_ALPHABETS[shard.get('alpha', 0)]
        texts = ([shard['first'] + ''.join(r) for r in itertools.product(alpha, repeat=L - 1)] if 'alpha' not in shard
                 else [''.join(r) for r in itertools.product(alpha, repeat=L)])
        for T in texts:
            for k in range(1, L + 1):
                for j in range(0, k):
                    guarded_check(mod, {'parts': [T[:k], T[j:]], 'two': T}, ctx)
    elif shard['kind'] == 'engine':
        n = len(ENGINE_TEXTS)
        for L in range(1, b['engine_lines'] + 1):
            for rest in itertools.product(range(n), repeat=L - 1):
                for bs in (1, 4):
                    guarded_check(mod, {'engine': [shard['first']] + list(rest), 'bs': bs}, ctx)
    elif shard['kind'] == 'engine-fault':
        # environment answers: the same line lists, and ONE call of process_lines to a dependency fails (every such call in turn)
        n = len(ENGINE_TEXTS)
        for L in range(1, b['fault_lines'] + 1):
            for rest in itertools.product(range(n), repeat=L - 1):
                for bs in (1, 4):
                    for fault in ENGINE_FAULTS:
                        if fault == 'alloc' and L > b['alloc_fault_lines']:
                            continue                     # dozens of allocations per line (edit-distance tables of the overlap search)
                        guarded_check(mod, {'engine': [shard['first']] + list(rest), 'bs': bs, 'fault': fault}, ctx)
    elif shard['kind'] == 'engine-fault-long':
        # lists long enough to need several recogniser calls (batch_size 1: three lines per call): the recogniser also fails AFTER the
        # results of an earlier batch were stored
        for rest in itertools.product(FAULT_LONG_TEXTS, repeat=b['fault_long_lines'] - 1):
            guarded_check(mod, {'engine': [shard['first']] + list(rest), 'bs': 1, 'fault': 'oom'}, ctx)
    elif shard['kind'] == 'engine-reconf':
        # histories on ONE live engine: constructed with one max_line_width, (used,) max_line_width assigned, used again
        n = len(ENGINE_TEXTS)
        for L in range(1, b['reconf_lines'] + 1):
            for rest in itertools.product(range(n), repeat=L - 1):
                for bs in (1, 4):
                    for hist, use_first in reconf_histories(b['reconf_depth'] if L == 1 else 1):
                        guarded_check(mod, {'engine': [shard['first']] + list(rest), 'bs': bs, 'mlw': hist, 'use_first': use_first}, ctx)
    else:
        L, w = shard['L'], shard['w']
        for tx in itertools.product('ab', repeat=L):
            text = ''.join(tx)
            for ov in range(1, w):
                parts = windows(text, w, w - ov)
                if len(parts) < 2 or len(parts) > 4:
                    continue
                guarded_check(mod, {'parts': parts, 'window': [w, ov], 'text': text}, ctx)
                # recognition noise inside the first overlap: substitute / delete one character of the second part
                for pos in range(min(ov, len(parts[1]))):
                    p1 = parts[1]
                    sub = p1[:pos] + ('c' if True else '') + p1[pos + 1:]
                    dele = p1[:pos] + p1[pos + 1:]
                    guarded_check(mod, {'parts': [parts[0], sub] + parts[2:], 'window': [w, ov], 'noise': ['sub', pos]}, ctx)
                    guarded_check(mod, {'parts': [parts[0], dele] + parts[2:], 'window': [w, ov], 'noise': ['del', pos]}, ctx)


def wf(a, b):
    n, m = len(a), len(b)
    D = list(range(m + 1))
    for i in range(1, n + 1):
        prev, D[0] = D[0], i
        for j in range(1, m + 1):
            cur = min(D[j] + 1, D[j - 1] + 1, prev + (a[i - 1] != b[j - 1]))
            prev, D[j] = D[j], cur
    return D[m]


def make_logits(parts, extra):
    out = []
    for p, t in enumerate(parts):
        n = len(t) + extra
        out.append(np.asarray([[p, i] for i in range(n)], dtype=np.float64).reshape(n, 2))
    return out


def check_case(case, ctx):
    if 'engine' in case:
        return check_engine(case, ctx)
    from pero_ocr.ocr_engine.line_ocr_engine import merge_transcriptions_and_logits, find_best_overlap
    parts = case['parts']
    ctx.state(tuple(parts))
    K = f'{ID}/merge'
    for extra in (0, 2):
        logits = make_logits(parts, extra)
        keep = [l.copy() for l in logits]
        text, rows = merge_transcriptions_and_logits(list(parts), logits)
        ctx.executed()
        rows = np.asarray(rows).reshape(-1, 2) if len(text) or np.asarray(rows).size else np.zeros((0, 2))
        # reference model
        ref_t = parts[0]
        ref_r = [(0, i) for i in range(len(parts[0]))]
        overlaps = []
        for p, nxt in enumerate(parts[1:], 1):
            o = int(find_best_overlap(ref_t, nxt))
            ctx.executed()
            if not (0 <= o <= min(len(ref_t), len(nxt))) or (o > 0 and wf(ref_t[-o:], nxt[:o]) >= o):
                ctx.violation('detected-overlap-sane', f'{ID}/find_best_overlap/implausible',
                              f'find_best_overlap({ref_t!r},{nxt!r}) = {o}')
                return
            overlaps.append(o)
            left = len(ref_t) - (o + 1) // 2
            ref_t = ref_t[:left] + nxt[o // 2:]
            ref_r = ref_r[:left] + [(p, i) for i in range(o // 2, len(nxt))]
        desc = f'parts {parts} (logit rows = len+{extra}), detected overlaps {overlaps}: got {text!r}'
        if text != ref_t:
            if any(o == 0 for o in overlaps) and len(text) < len(ref_t):
                key = f'{K}/zero-overlap-loses-text'
            else:
                key = f'{K}/text-differs-from-reference'
            ctx.violation('text-kept', key, f'{desc}, reference merge gives {ref_t!r}')
            continue
        if len(text) != sum(len(p) for p in parts) - sum(overlaps):
            ctx.violation('length-is-sum-minus-overlaps', f'{K}/length', desc)
        if rows.shape[0] != len(text):
            ctx.violation('one-logit-row-per-character', f'{K}/logit-row-count', f'{desc}: {rows.shape[0]} logit rows for {len(text)} characters')
            continue
        got_r = [(int(a), int(b)) for a, b in rows]
        if got_r != ref_r:
            ctx.violation('one-logit-row-per-character', f'{K}/logit-row-provenance',
                          f'{desc}: rows come from (part,index) {got_r}, expected {ref_r}')
        # the engine keeps its per-part logits: merging the same objects again gives the same result
        text2, rows2 = merge_transcriptions_and_logits(list(parts), logits)
        ctx.executed()
        if text2 != text or np.asarray(rows2).shape != np.asarray(rows if len(text) else rows2).shape and len(text):
            ctx.violation('text-kept', f'{K}/second-merge-of-the-same-parts-differs', f'{desc}; merging the same part objects again gives {text2!r} '
                          f'(logits modified by the first call: {any((a != b).any() for a, b in zip(keep, logits))})')
        if len(parts) == 2:
            o = overlaps[0]
            if not text.startswith(parts[0][:len(parts[0]) - (o + 1) // 2]) or not text.endswith(parts[1][o // 2:]):
                ctx.violation('begins-with-first-ends-with-last', f'{K}/ends', desc)
        if 'two' in case:
            # two noise-free windows of one text whose true overlap is the ONLY exact suffix/prefix match: nothing else can be "the" overlap,
            # so the merged text is the text
            a_, b_ = parts
            exact = [i for i in range(1, min(len(a_), len(b_)) + 1) if a_[-i:] == b_[:i]]
            true_ov = len(a_) + len(b_) - len(case['two'])
            if exact == [true_ov]:
                ctx.tag('unique-exact-overlap')
                if len(a_) > 255:
                    ctx.tag('parts-longer-than-255')
                if len(b_) == true_ov:
                    ctx.tag('second-window-only-repeats-the-overlap')
                if text != case['two']:
                    ctx.violation('text-kept', f'{K}/true-windows-with-unique-overlap-not-reproduced',
                                  f'{desc}: the parts are the windows [:{len(a_)}] and [{len(a_) - true_ov}:] of {case["two"]!r}, whose only exact '
                                  f'overlap has length {true_ov}')
                    continue
        if all(o == 0 for o in overlaps) and text != ''.join(parts):
            ctx.violation('no-overlap-means-concatenation', f'{K}/zero-overlap-not-concatenated', desc)
        if 'window' in case and 'noise' not in case and 'text' in case:
            # true overlapping windows of one text, recognised without noise: no character of the text may be lost
            it = iter(text)
            if not all(ch in it for ch in case['text']):
                ctx.violation('text-kept', f'{K}/true-windows-lose-characters',
                              f'{desc}: the windows come from {case["text"]!r} (width {case["window"][0]}, overlap {case["window"][1]}), '
                              f'which is not contained (as a subsequence) in the merged text')
                continue
        if extra == 0:
            ctx.outcome((len(text), tuple(overlaps)))
            if any(o > 0 for o in overlaps) and any(o == 0 for o in overlaps):
                ctx.nontrivial(tuple(parts), 'mixed-zero-and-positive-overlaps')
            if any(o == 0 for o in overlaps):
                ctx.tag('zero-overlap')
            if any(o % 2 for o in overlaps):
                ctx.tag('odd-overlap')
            if '' in parts:
                ctx.tag('empty-part')
            if case.get('noise'):
                ctx.tag('noisy-overlap')
    if 'window' in case and 'noise' not in case and len(parts) == 3:
        ctx.sample({'parts': parts, 'merged': text})


def describe(tier):
    return {
        'rule': 'all lists of 1..3 parts (length 0..3, {a,b}); all pairs of parts up to pair_len over {a,b,c}; all window splittings '
                '(2..4 windows, every width and overlap) of all texts over {a,b} with Lmin<=L<=Lmax, clean / one substituted / one '
                'deleted character in the first overlap; each with logits of len and len+2 rows. state = distinct part list. '
                'Non-trivial: a list whose merges have both a zero and a positive detected overlap. Engine: all lists of 1..engine_lines painted '
                'lines x batch size {1,4}; the same lists (1..fault_lines) x every failing dependency call (recogniser out of memory, numpy '
                'allocation) + all lists of fault_long_lines lines over 3 texts at batch size 1; all lists of 1..reconf_lines lines x batch size x '
                'every history construct(W0), [use], 1..reconf_depth (lists of several lines: 1) assignments of max_line_width (each followed by a use).',
        'bounds': BOUNDS[tier], 'alphabets': {'lists': 'ab', 'pairs': 'abc', 'windows': 'ab (+c as noise)'},
        'assumptions': ['the detected overlap is the implementation\'s find_best_overlap (sanity-checked only)'],
        'min_nontrivial': 20, 'required_tags': ['parts-longer-than-255', 'unique-exact-overlap', 'second-window-only-repeats-the-overlap', 'zero-overlap', 'odd-overlap', 'empty-part', 'noisy-overlap', 'split-lines-merged', 'engine-empty-part',
                          'engine-merge-restores-the-text', 'engine-recogniser-out-of-memory-injected', 'engine-allocation-failure-injected',
                          'engine-out-of-memory-in-a-batch-of-several-lines-with-a-split-line',
                          'engine-out-of-memory-after-an-earlier-batch-succeeded', 'engine-split-after-max_line_width-changed',
                          'engine-max_line_width-lowered-on-a-live-engine', 'engine-max_line_width-raised-on-a-live-engine',
                          'engine-max_line_width-changed-before-the-first-use'],
    }
