"""C15 - Stitching parts of an over-long line never loses text.

Space: (a) ALL lists of 1..3 part transcriptions over {a,b} with part length 0..3 (empty parts in every position,
unrelated parts, accidental overlaps), (b) all pairs of parts of length <= 4 over {a,b,c}, (c) true overlapping windows:
every text over {a,b} of length Lmin..Lmax cut into windows of every width/overlap, clean and with one substituted or
deleted character inside an overlap.  Each list is merged with logits of exactly len rows and of len+2 rows; row i of part
p is the vector (p, i), so the provenance of every merged row is observable.

(d) end to end: the REAL BaseEngineLineOCR.process_lines(model_type="transformer") (real constructor, real window splitting with 25 %
overlap, real span bookkeeping and merge) around a stub run_ocr that reads characters painted into the line images: ALL ordered lists of
1..2 (quick) / 1..3 (thorough) lines over a 9-text alphabet (shorter / equal / longer than the maximal line width, periodic text, a blank
stretch that yields an empty part) x batch size {1, 4}.

Oracle: a boring reference model with explicit slice arithmetic (cut ceil(o/2) characters from the text merged so far,
floor(o/2) from the next part; o = overlap detected between the text merged so far and the next part).
"""
import itertools

import numpy as np

ID = 'C15'

MANIFEST = dict(
    technique='explicit-state enumeration of all part lists (input tree), all window splittings, and all short line lists through the real process_lines(model_type=transformer) with a stub run_ocr; real merge vs a reference model with provenance-tagged logits',
    text='Bounded exhaustive: every list of 1-3 parts of length 0-3 over {a,b}, every pair of parts up to length 4 over {a,b,c}, and every window splitting (all widths/overlaps, clean or with one noisy character in an overlap) of every text over {a,b} of length 5-7 (quick) / 5-9 (thorough); text and provenance-tagged logits of the real merge must equal the reference model, and the statement-level facts (length = sum of parts minus overlaps, one logit row per character, first/last part kept, zero overlap = concatenation) are checked separately; every list of 1-2 (quick) / 1-3 (thorough) painted lines over a 9-text alphabet goes through the real window splitting, span bookkeeping and merge of process_lines, and each line must equal the reference merge of its own windows. Added sub-sweeps: the real engine end to end on painted lines, a subsequence clause for noise-free windows, every reading of a text of up to 6 (quick) / 8 (thorough) characters as two true windows (unique exact overlap => the merged text is the text), and parts of 260 characters. A fourth two-window alphabet: letter, combining accent and precomposed letter.',
    note='The overlap detector (find_best_overlap) is taken from the implementation and only sanity-checked (range, CER<1); alphabet and lengths are bounded.',
    ref='3/C15')

BOUNDS = {'quick': dict(Lmin=5, Lmax=7, pair_len=4, engine_lines=2, two_len=6), 'thorough': dict(Lmin=5, Lmax=9, pair_len=5, engine_lines=3, two_len=8)}
BOUNDS['replay'] = BOUNDS['quick']


def strings(alpha, maxlen):
    return [''.join(p) for n in range(maxlen + 1) for p in itertools.product(alpha, repeat=n)]


def setup(tier):
    pass


def shards(tier):
    b = BOUNDS[tier]
    out = [{'kind': 'lists', 'n': 1}, {'kind': 'lists', 'n': 2}]
    S = strings('ab', 3)
    for i in range(len(S)):
        out.append({'kind': 'lists', 'n': 3, 'first': i})
    P = strings('abc', b['pair_len'])
    for i in range(0, len(P), 40):
        out.append({'kind': 'pairs', 'lo': i, 'hi': min(len(P), i + 40)})
    for L in range(b['Lmin'], b['Lmax'] + 1):
        for w in range(2, L):
            out.append({'kind': 'windows', 'L': L, 'w': w})
    for f in range(len(ENGINE_TEXTS)):
        out.append({'kind': 'engine', 'first': f})
    for L in range(1, b['two_len'] + 1):
        for first in 'abc':
            out.append({'kind': 'two', 'L': L, 'first': first})
    for ai in range(1, len(TWO_ALPHABETS)):
        for L in range(1, b['two_len']):
            out.append({'kind': 'two', 'L': L, 'alpha': ai})
    for i in range(len(LONG_PARTS)):
        out.append({'kind': 'longparts', 'i': i})
    return out


LONG_PARTS = ((480, 260, 220), (500, 260, 130), (390, 260, 0), (520, 260, 260))       # (text length, end of part 1, start of part 2)


# alphabets of the two-window sweep: plain letters; with a character outside the Basic Multilingual Plane (two UTF-16 code units, one code
# point); with a blank (parts may consist of white space only); a letter, a combining accent and their precomposed form (texts that Unicode
# normalisation would shorten)
TWO_ALPHABETS = ['abc', ['\U0001d520', 'a', 'b'], [' ', 'a', 'b'], ['e', '\u0301', '\u00e9']]


def long_text(n, seed=7):
    x, out = seed, []
    for _ in range(n):
        x = (x * 1103515245 + 12345) % (2 ** 31)
        out.append('abcdefgh'[(x >> 16) % 8])
    return ''.join(out)


CW = 8                       # pixels per painted character
MLW = 64                     # max_line_width of the stub engine: 8 characters per window, overlap 2, step 6
ENGINE_TEXTS = ['abc', 'abcdefgh', 'abcdefghi', 'qrstuvwxyzabcd', 'hgfedcbazyxwvut', 'mnopqrstuvwxyzabcdefghij', 'abababababababab',
                'abcdefghijkl________mnopqr', 'zyxwvutsrqponmlkjihgfedcbaz']


def engine_windows(text):
    n, ov = MLW // CW, (MLW // 4) // CW
    if len(text) <= n:
        return [text]
    parts, start, end = [], 0, n
    while end < len(text):
        parts.append(text[start:end])
        start += n - ov
        end += n - ov
    parts.append(text[start:end])
    return parts


def paint_text(text):
    img = np.zeros((8, CW * len(text), 3), dtype=np.uint8)
    for k, ch in enumerate(text):
        if ch != '_':
            img[:, CW * k:CW * (k + 1), :] = ord(ch) - 96
    return img


def make_stub_engine(batch_size):
    import json
    import os
    import torch
    from pero_ocr.ocr_engine.line_ocr_engine import BaseEngineLineOCR
    d = '/verif/.cache/stubs'
    os.makedirs(d, exist_ok=True)
    js = os.path.join(d, f'c15-transformer-{os.getpid()}.json')
    with open(js, 'w') as f:
        json.dump({'line_px_height': 8, 'line_vertical_scale': 1.0, 'checkpoint': 'none.pt', 'characters': [chr(97 + i) for i in range(26)],
                   'net_name': 'stub', 'max_line_width': MLW}, f)
    eng = BaseEngineLineOCR(js, torch.device('cpu'), batch_size=batch_size, model_type='transformer')
    os.remove(js)
    seen = []

    def run_ocr(batch_data):
        pad = eng.line_padding_px
        texts, logits = [], []
        for row in batch_data:
            vals = row[4, pad + CW // 2::CW, 0]
            t = ''.join(chr(96 + int(v)) for v in vals if v > 0)
            texts.append(t)
            lg = np.full((len(t) + 1, 28), -5.0, dtype=np.float32)
            for i, ch in enumerate(t):
                lg[i, ord(ch) - 97] = 5.0 + 0.01 * i
            logits.append(lg)
        seen.append(list(texts))
        return texts, logits
    eng.run_ocr = run_ocr
    return eng, seen


def check_engine(case, ctx):
    from pero_ocr.ocr_engine.line_ocr_engine import find_best_overlap
    texts = [ENGINE_TEXTS[i] for i in case['engine']]
    ctx.state(('engine', tuple(case['engine']), case['bs']))
    eng, seen = make_stub_engine(case['bs'])
    tr, lg, co = eng.process_lines([paint_text(t) for t in texts])
    ctx.executed()
    desc = f'process_lines(model_type=transformer, max_line_width={MLW}) on painted texts {texts}, batch_size={case["bs"]}'
    if len(tr) != len(texts):
        ctx.violation('text-kept', f'{ID}/engine/result-count', f'{desc}: {len(tr)} results')
        return
    for k, text in enumerate(texts):
        parts = [p.replace('_', '') for p in engine_windows(text)]
        ref = parts[0]
        overlaps = []
        for nxt in parts[1:]:
            o = int(find_best_overlap(ref, nxt))
            overlaps.append(o)
            ref = ref[:len(ref) - (o + 1) // 2] + nxt[o // 2:]
        it = iter(tr[k])
        if not all(ch in it for ch in text.replace('_', '')):
            ctx.violation('text-kept', f'{ID}/engine/line-loses-characters', f'{desc}: line {k} -> {tr[k]!r} lost characters of {text!r}')
            return
        if tr[k] != ref:
            ctx.violation('text-kept', f'{ID}/engine/line-text-differs-from-merge-of-its-windows',
                          f'{desc}: line {k} -> {tr[k]!r}; its windows {parts} merge (overlaps {overlaps}) to {ref!r}')
            return
        rows = lg[k].shape[0]
        if rows != len(tr[k]) or list(co[k]) != [0, len(tr[k])]:
            ctx.violation('one-logit-row-per-character', f'{ID}/engine/logit-rows-or-window',
                          f'{desc}: line {k}: {rows} logit rows, window {co[k]} for {len(tr[k])} characters')
            return
        dense = np.asarray(lg[k].toarray()) if hasattr(lg[k], 'toarray') else np.asarray(lg[k])
        got = ''.join(chr(97 + int(np.argmax(np.where(r == 0, -80, r)))) for r in dense)
        if got != tr[k]:
            ctx.violation('one-logit-row-per-character', f'{ID}/engine/logit-rows-do-not-spell-the-text', f'{desc}: line {k}: rows spell {got!r}, text {tr[k]!r}')
            return
        if len(parts) > 1:
            ctx.nontrivial(('engine', tuple(case['engine']), case['bs'], k), 'split-lines-merged')
        if '' in parts:
            ctx.tag('engine-empty-part')
        if len(parts) > 1 and ref == text.replace('_', ''):
            ctx.tag('engine-merge-restores-the-text')
    ctx.outcome(('engine', tuple(len(t) for t in tr)))


def windows(text, w, step):
    parts, start, end = [], 0, w
    while end < len(text):
        parts.append(text[start:end])
        start += step
        end += step
    parts.append(text[start:end])
    return parts


def run_shard(shard, ctx, tier):
    from mc.core import guarded_check
    import sys
    mod = sys.modules[__name__]
    b = BOUNDS[tier]
    if shard['kind'] == 'lists':
        S = strings('ab', 3)
        if shard['n'] == 3:
            firsts = [S[shard['first']]]
        else:
            firsts = S
        for f in firsts:
            for rest in itertools.product(S, repeat=shard['n'] - 1):
                guarded_check(mod, {'parts': [f] + list(rest)}, ctx)
    elif shard['kind'] == 'pairs':
        P = strings('abc', b['pair_len'])
        for a in P[shard['lo']:shard['hi']]:
            for c in P:
                guarded_check(mod, {'parts': [a, c]}, ctx)
    elif shard['kind'] == 'longparts':
        # parts of more than 255 characters, overlaps on both sides of 127 / 255
        n, k, j = LONG_PARTS[shard['i']]
        T = long_text(n)
        guarded_check(mod, {'parts': [T[:k], T[j:]], 'two': T}, ctx)
    elif shard['kind'] == 'two':
        # every way of reading one text T as two true windows a = T[:k], b = T[j:] (j <= k), including a second window that only repeats
        # the end of the first one (k = len(T))
        L = shard['L']
        alpha = TWO_ALPHABETS[shard.get('alpha', 0)]
        texts = ([shard['first'] + ''.join(r) for r in itertools.product(alpha, repeat=L - 1)] if 'alpha' not in shard
                 else [''.join(r) for r in itertools.product(alpha, repeat=L)])
        for T in texts:
            for k in range(1, L + 1):
                for j in range(0, k):
                    guarded_check(mod, {'parts': [T[:k], T[j:]], 'two': T}, ctx)
    elif shard['kind'] == 'engine':
        n = len(ENGINE_TEXTS)
        for L in range(1, b['engine_lines'] + 1):
            for rest in itertools.product(range(n), repeat=L - 1):
                for bs in (1, 4):
                    guarded_check(mod, {'engine': [shard['first']] + list(rest), 'bs': bs}, ctx)
    else:
        L, w = shard['L'], shard['w']
        for tx in itertools.product('ab', repeat=L):
            text = ''.join(tx)
            for ov in range(1, w):
                parts = windows(text, w, w - ov)
                if len(parts) < 2 or len(parts) > 4:
                    continue
                guarded_check(mod, {'parts': parts, 'window': [w, ov], 'text': text}, ctx)
                # recognition noise inside the first overlap: substitute / delete one character of the second part
                for pos in range(min(ov, len(parts[1]))):
                    p1 = parts[1]
                    sub = p1[:pos] + ('c' if True else '') + p1[pos + 1:]
                    dele = p1[:pos] + p1[pos + 1:]
                    guarded_check(mod, {'parts': [parts[0], sub] + parts[2:], 'window': [w, ov], 'noise': ['sub', pos]}, ctx)
                    guarded_check(mod, {'parts': [parts[0], dele] + parts[2:], 'window': [w, ov], 'noise': ['del', pos]}, ctx)


def wf(a, b):
    n, m = len(a), len(b)
    D = list(range(m + 1))
    for i in range(1, n + 1):
        prev, D[0] = D[0], i
        for j in range(1, m + 1):
            cur = min(D[j] + 1, D[j - 1] + 1, prev + (a[i - 1] != b[j - 1]))
            prev, D[j] = D[j], cur
    return D[m]


def make_logits(parts, extra):
    out = []
    for p, t in enumerate(parts):
        n = len(t) + extra
        out.append(np.asarray([[p, i] for i in range(n)], dtype=np.float64).reshape(n, 2))
    return out


def check_case(case, ctx):
    if 'engine' in case:
        return check_engine(case, ctx)
    from pero_ocr.ocr_engine.line_ocr_engine import merge_transcriptions_and_logits, find_best_overlap
    parts = case['parts']
    ctx.state(tuple(parts))
    K = f'{ID}/merge'
    for extra in (0, 2):
        logits = make_logits(parts, extra)
        keep = [l.copy() for l in logits]
        text, rows = merge_transcriptions_and_logits(list(parts), logits)
        ctx.executed()
        rows = np.asarray(rows).reshape(-1, 2) if len(text) or np.asarray(rows).size else np.zeros((0, 2))
        # reference model
        ref_t = parts[0]
        ref_r = [(0, i) for i in range(len(parts[0]))]
        overlaps = []
        for p, nxt in enumerate(parts[1:], 1):
            o = int(find_best_overlap(ref_t, nxt))
            ctx.executed()
            if not (0 <= o <= min(len(ref_t), len(nxt))) or (o > 0 and wf(ref_t[-o:], nxt[:o]) >= o):
                ctx.violation('detected-overlap-sane', f'{ID}/find_best_overlap/implausible',
                              f'find_best_overlap({ref_t!r},{nxt!r}) = {o}')
                return
            overlaps.append(o)
            left = len(ref_t) - (o + 1) // 2
            ref_t = ref_t[:left] + nxt[o // 2:]
            ref_r = ref_r[:left] + [(p, i) for i in range(o // 2, len(nxt))]
        desc = f'parts {parts} (logit rows = len+{extra}), detected overlaps {overlaps}: got {text!r}'
        if text != ref_t:
            if any(o == 0 for o in overlaps) and len(text) < len(ref_t):
                key = f'{K}/zero-overlap-loses-text'
            else:
                key = f'{K}/text-differs-from-reference'
            ctx.violation('text-kept', key, f'{desc}, reference merge gives {ref_t!r}')
            continue
        if len(text) != sum(len(p) for p in parts) - sum(overlaps):
            ctx.violation('length-is-sum-minus-overlaps', f'{K}/length', desc)
        if rows.shape[0] != len(text):
            ctx.violation('one-logit-row-per-character', f'{K}/logit-row-count', f'{desc}: {rows.shape[0]} logit rows for {len(text)} characters')
            continue
        got_r = [(int(a), int(b)) for a, b in rows]
        if got_r != ref_r:
            ctx.violation('one-logit-row-per-character', f'{K}/logit-row-provenance',
                          f'{desc}: rows come from (part,index) {got_r}, expected {ref_r}')
        # the engine keeps its per-part logits: merging the same objects again gives the same result
        text2, rows2 = merge_transcriptions_and_logits(list(parts), logits)
        ctx.executed()
        if text2 != text or np.asarray(rows2).shape != np.asarray(rows if len(text) else rows2).shape and len(text):
            ctx.violation('text-kept', f'{K}/second-merge-of-the-same-parts-differs', f'{desc}; merging the same part objects again gives {text2!r} '
                          f'(logits modified by the first call: {any((a != b).any() for a, b in zip(keep, logits))})')
        if len(parts) == 2:
            o = overlaps[0]
            if not text.startswith(parts[0][:len(parts[0]) - (o + 1) // 2]) or not text.endswith(parts[1][o // 2:]):
                ctx.violation('begins-with-first-ends-with-last', f'{K}/ends', desc)
        if 'two' in case:
            # two noise-free windows of one text whose true overlap is the ONLY exact suffix/prefix match: nothing else can be "the" overlap,
            # so the merged text is the text
            a_, b_ = parts
            exact = [i for i in range(1, min(len(a_), len(b_)) + 1) if a_[-i:] == b_[:i]]
            true_ov = len(a_) + len(b_) - len(case['two'])
            if exact == [true_ov]:
                ctx.tag('unique-exact-overlap')
                if len(a_) > 255:
                    ctx.tag('parts-longer-than-255')
                if len(b_) == true_ov:
                    ctx.tag('second-window-only-repeats-the-overlap')
                if text != case['two']:
                    ctx.violation('text-kept', f'{K}/true-windows-with-unique-overlap-not-reproduced',
                                  f'{desc}: the parts are the windows [:{len(a_)}] and [{len(a_) - true_ov}:] of {case["two"]!r}, whose only exact '
                                  f'overlap has length {true_ov}')
                    continue
        if all(o == 0 for o in overlaps) and text != ''.join(parts):
            ctx.violation('no-overlap-means-concatenation', f'{K}/zero-overlap-not-concatenated', desc)
        if 'window' in case and 'noise' not in case and 'text' in case:
            # true overlapping windows of one text, recognised without noise: no character of the text may be lost
            it = iter(text)
            if not all(ch in it for ch in case['text']):
                ctx.violation('text-kept', f'{K}/true-windows-lose-characters',
                              f'{desc}: the windows come from {case["text"]!r} (width {case["window"][0]}, overlap {case["window"][1]}), '
                              f'which is not contained (as a subsequence) in the merged text')
                continue
        if extra == 0:
            ctx.outcome((len(text), tuple(overlaps)))
            if any(o > 0 for o in overlaps) and any(o == 0 for o in overlaps):
                ctx.nontrivial(tuple(parts), 'mixed-zero-and-positive-overlaps')
            if any(o == 0 for o in overlaps):
                ctx.tag('zero-overlap')
            if any(o % 2 for o in overlaps):
                ctx.tag('odd-overlap')
            if '' in parts:
                ctx.tag('empty-part')
            if case.get('noise'):
                ctx.tag('noisy-overlap')
    if 'window' in case and 'noise' not in case and len(parts) == 3:
        ctx.sample({'parts': parts, 'merged': text})


def describe(tier):
    return {
        'rule': 'all lists of 1..3 parts (length 0..3, {a,b}); all pairs of parts up to pair_len over {a,b,c}; all window splittings '
                '(2..4 windows, every width and overlap) of all texts over {a,b} with Lmin<=L<=Lmax, clean / one substituted / one '
                'deleted character in the first overlap; each with logits of len and len+2 rows. state = distinct part list. '
                'Non-trivial: a list whose merges have both a zero and a positive detected overlap.',
        'bounds': BOUNDS[tier], 'alphabets': {'lists': 'ab', 'pairs': 'abc', 'windows': 'ab (+c as noise)'},
        'assumptions': ['the detected overlap is the implementation\'s find_best_overlap (sanity-checked only)'],
        'min_nontrivial': 20, 'required_tags': ['parts-longer-than-255', 'unique-exact-overlap', 'second-window-only-repeats-the-overlap', 'zero-overlap', 'odd-overlap', 'empty-part', 'noisy-overlap', 'split-lines-merged', 'engine-empty-part',
                          'engine-merge-restores-the-text'],
    }
