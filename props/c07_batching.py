"""C07 - Batched line recognition returns each line's own result in input order.

Driver: a REAL PytorchEngineLineOCR built by its real constructor from a generated JSON definition and a TorchScript stub
network file whose frame t depends only on pixel columns [4t, 4t+4) (average pooling; a second stub adds a 3-frame receptive
field).  Zero padding decodes to blank, so a line's own frames cannot legitimately depend on its batch.

Space (configuration lattice): ALL ordered lists of 0..N lines (with repetitions) over a 19-crop alphabet (widths 1,3,4,5,31,32,33,
100,290,300, two equal-width twins with different content, one crop wider than the smallest engine maximum) x batch size x mode
{sparse, dense, tight-crop, no-logits} x stub.  Each list is recognised by a fresh engine, then again in reversed order by the SAME
engine (history), and once through PageOCR.process_page.  Sub-lattice 'x' (BOUNDS bsx / ctxx, lists of 1-2): the same engine then recognises the
list in every other mode (all ordered pairs of modes); lists of 1-3: every network call of the call fails once (environment answer,
mc/faults.py) - a value the call returns, and the next call, are checked like any other result.  Page sub-sweep (BOUNDS page_bounds): one
PageOCR page of B - 1, B, B + 1 lines for every boundary B (powers of two, round decimal numbers), every line compared with its crop alone.

Oracle: the same line recognised alone by a fresh engine (same pixel budget), position by position; and a reference decoder: the
transcription is the greedy CTC decoding of the logits returned for the line (the alone-run goes through the same decoder, so a
decoder that leaks state between the rows of a batch - or from a row's end to its start - is invisible to the differential oracle).
"""
import itertools
import os

import numpy as np

ID = 'C07'

MANIFEST = dict(
    technique='explicit-state enumeration of all ordered line lists x batch sizes x modes x stub networks on the real engine (real constructor, TorchScript stub); differential oracle = each line recognised alone by a fresh engine',
    text='Bounded exhaustive: every ordered list of 0-2 line crops over a 19-crop alphabet (widths 1..300, equal-width twins, an over-long crop) x batch size {1,2,3,16} (quick) / 1..16 (thorough) x {sparse, dense, tight-crop, no-logits} x two stub networks, every list of 3 crops for batch sizes {1,16} on the local stub (quick) / all batch sizes and both stubs (thorough), lists of 4 over a 6-crop sub-alphabet (thorough), each recognised, recognised again in reverse order on the same engine, and through PageOCR.process_page. At every position the text, the logits on the line\'s own frames and the frame window must equal those of the line recognised alone; sparse storage must hold exactly the dense logits with posterior >= 1e-4. Added sub-sweeps: crops of 417 / 440 / 448 / 500 px around the smallest engine maximum, a blank crop, a crop with logit range > 200, an embedding engine whose id changes between calls, 260 lines in one call, and a sparsification clause (exactly the entries with posterior >= 1e-4). Crops with identical bytes but different shape/dtype (the float64 placeholder of a failed crop next to a blank uint8 crop) in one call; the call after one in which the network raised out-of-memory once (injected fault). Wave 10: (1) every fault point of the call on the list itself (mc/faults.py Injector on the network call, lists of 1-3, batch sizes {2,16} quick / all thorough): the call may raise, but a value it returns - and the next call on that engine - must give every line its own result; (2) mode history: after its calls in mode m the same engine recognises the list (1-2 crops) in every other mode, all ordered pairs of modes, each result compared with the line alone in that mode; (3) reference decoder clause: every dense / sparse transcription must be the greedy CTC decoding (each line on its own, no predecessor for frame 0) of the logits returned at that position, and the embedding stub makes the padding read as each character a, b, c (not blank) so that the first and last frame of a buffer row carry a character. Wave 11: page-size sub-sweep - PageOCR.process_page on pages of B - 1, B and B + 1 lines for B in {64, 100, 128, 256, 500, 512, 1000, 1024, 2048} (quick; thorough also 2000, 4096, 5000), both stubs, lines in three regions one of which is empty; every line of the page, in reading order, must carry the transcription, logits, frame window and alphabet of its own crop recognised alone; and a batch-size clause: a line whose own pixels fit the engine maximum of its batch size (417 / 440 / 448 px at batch size 1) has, on its own frame window, the logits and the text it has at batch size 16 (the alone-run shares the budget of the call and cannot see own pixels lost at a small budget).',
    note='Stub networks with bounded horizontal receptive field (the property is stated for those); CPU only; float tolerance 1e-5 on logits.',
    ref='3/C07')

H = 8
C = 4                                   # a, b, c, blank
CHARS = ['a', 'b', 'c']
WIDTHS = [1, 3, 4, 5, 31, 32, 33, 100, 290, 300, 440]        # 440: fits the smallest engine maximum (480 px) only after the right padding is cut
# alphabet entries: (width, content seed)
CROPS = [(w, i) for i, w in enumerate(WIDTHS)] + [(32, 40), (500, 41), (36, 50), (2, 60), (448, 70), (417, 71), (8, 61), (64, 60)]
# seed 50: very confident frames; seed 60: blank crop; 448 px fills the smallest engine maximum (480 px) exactly; 417 px is the first width
# whose padded tensor (rounded up to a multiple of 32) does; seed 61: the float64 all-zero H x H placeholder the page-level cropper leaves on a line
# it could not crop - it has the same bytes as the blank uint8 crop of 8 x H pixels next to it (seed 60, 64 px)
MODES = ['sparse', 'dense', 'tight', 'nologits']
DEPTH3_QUICK = [0, 4, 5, 7, 8, 9, 10, 11, 12, 14]      # lists of 3 in the quick tier use this sub-alphabet
# page_bounds: PageOCR pages with B - 1, B and B + 1 lines for every B of this list (powers of two and round decimal numbers: what a page-level
# portion / buffer size would be)
BOUNDS = {'quick': dict(depth=3, bs=[1, 2, 3, 16], bs3=[1, 16], ctx3=[0], deep_alphabet=0, bsx=[2, 16], ctxx=[0], page_bounds=[64, 100, 128, 256, 500, 512, 1000, 1024, 2048], page_ctx=[0, 1]),
          'thorough': dict(depth=3, bs=list(range(1, 17)), bs3=list(range(1, 17)), ctx3=[0, 1], deep_alphabet=6, bsx=list(range(1, 17)), ctxx=[0, 1],
                           page_bounds=[64, 100, 128, 256, 500, 512, 1000, 1024, 2000, 2048, 4096, 5000], page_ctx=[0, 1])}
BOUNDS['replay'] = BOUNDS['quick']
STUBS = [(0,), (1,)]                    # ctx = 0 (strictly local) / 1 (3-frame receptive field)
_REF = {}


def setup(tier):
    from mc import stubs
    for (ctx,) in STUBS:
        stubs.ctc_engine_json(C, CHARS, line_px_height=H, pool=4, bias_blank=3.0, ctx=ctx, offset=0.25)


def crop(i):
    """crop image [H, w, 3] uint8; each 4-column block carries one 'symbol' with graded scores"""
    w, seed = CROPS[i]
    img = np.zeros((H, w, 3), dtype=np.uint8)
    levels = [(40, 10, 12), (12, 40, 10), (10, 12, 40), (20, 11, 10), (10, 20, 19), (14, 13, 5)]
    if seed == 50:
        levels = [(250, 2, 0), (14, 13, 5), (0, 250, 1), (10, 20, 19), (12, 40, 10), (1, 0, 250)]
    if seed == 60:
        return img                        # an entirely blank line (e.g. the cropper's fallback crop): decodes to ''
    if seed == 61:
        return np.zeros((H, w, 3))        # (float64, as page_parser.LineCropper writes it)
    for blk in range((w + 3) // 4):
        k = (blk * 7 + seed * 3 + blk // 3) % (len(levels) + 2)
        x0, x1 = 4 * blk, min(w, 4 * blk + 4)
        if k >= len(levels):
            continue                      # an empty (blank) block
        for c in range(3):
            img[c, x0:x1, 0] = levels[k][c]
    img[:, :, 1] = 7                      # other channels / rows are ignored by the stub
    img[5, :, 0] = 99
    return img


def make_engine(bs, ctx):
    from mc import stubs
    return stubs.make_ctc_engine(C, CHARS, line_px_height=H, pool=4, bias_blank=3.0, ctx=ctx, batch_size=bs, offset=0.25)


def run(engine, lines, mode):
    kw = {'sparse': {}, 'dense': {'sparse_logits': False}, 'tight': {'tight_crop_logits': True}, 'nologits': {'no_logits': True}}[mode]
    return engine.process_lines([l.copy() for l in lines], **kw)


def todense(x):
    return None if x is None else (np.asarray(x.toarray()) if hasattr(x, 'toarray') else np.asarray(x))


def greedy_ctc(L):
    """reference decoder (independent of the library's): arg-max class of every frame, repeats collapsed, blanks dropped - each line on its
    own, starting from 'no previous frame'.  None if some frame has no clear arg-max (tie, NaN): no verdict then"""
    if L.shape[0] == 0:
        return ''
    with np.errstate(invalid='ignore'):
        srt = np.sort(L, axis=1)
        if not np.all(srt[:, -1] - srt[:, -2] > 1e-3):
            return None
    best = np.argmax(L, axis=1)
    prev = np.concatenate(([C - 1], best[:-1]))
    return ''.join(CHARS[c] for c in best[(best != prev) & (best != C - 1)])


def reference(i, bs, ctx, mode):
    """line i recognised alone by a fresh engine with the same pixel budget"""
    # the budget (480 px x batch size) matters as soon as the PADDED tensor of the line (width rounded up to a multiple of 32, plus 32 px on
    # either side) can exceed it; below that the result cannot depend on the batch size and is shared
    key = (i, bs if CROPS[i][0] + 31 + 64 > 480 else 0, ctx, mode)
    if key not in _REF:
        eng = make_engine(bs, ctx)
        t, lg, co = run(eng, [crop(i)], mode)
        _REF[key] = (t[0], todense(lg[0]), co[0])
    return _REF[key]


def shards(tier):
    b = BOUNDS[tier]
    out = []
    for (ctx,) in STUBS:
        for bs in b['bs']:
            out.append({'ctx': ctx, 'bs': bs, 'n': [0, 1, 2]})
            for f in range(len(CROPS)):
                if bs in b['bs3'] and ctx in b['ctx3']:
                    out.append({'ctx': ctx, 'bs': bs, 'n': [3], 'first': f})
                if b['deep_alphabet']:
                    out.append({'ctx': ctx, 'bs': bs, 'n': [4], 'first': f})
    for bs in (3, 16):
        out.append({'big': 260, 'bs': bs})          # one call with more than 255 lines
    # page level: pages whose line count lies just below, at and just above every boundary of the tier (one shard per page)
    for cx in b['page_ctx']:
        for B in b['page_bounds']:
            for n in (B - 1, B, B + 1):
                out.append({'page': n, 'ctx': cx})
    return out


def run_shard(shard, ctx, tier):
    from mc.core import guarded_check
    import sys
    mod = sys.modules[__name__]
    b = BOUNDS[tier]
    if 'page' in shard:
        guarded_check(mod, {'page': shard['page'], 'ctx': shard['ctx']}, ctx)
        return
    if 'big' in shard:
        narrow = [i for i, (w, _) in enumerate(CROPS) if w <= 200]
        lst = [narrow[(7 * k + k // 5) % len(narrow)] for k in range(shard['big'])]
        for mode in (0, 1):
            guarded_check(mod, {'lines': lst, 'bs': shard['bs'], 'ctx': 0, 'mode': mode}, ctx)
        return
    for n in shard['n']:
        if n == 4:
            deep = [7, 8, 9, 10, 12, 0][:b['deep_alphabet']]
            if shard['first'] not in deep:
                continue
            lists = ([shard['first']] + list(r) for r in itertools.product(deep, repeat=3))
        elif 'first' in shard:
            alpha3 = range(len(CROPS)) if tier == 'thorough' else DEPTH3_QUICK
            if shard['first'] not in alpha3:
                continue
            lists = ([shard['first']] + list(r) for r in itertools.product(alpha3, repeat=n - 1))
        else:
            lists = (list(r) for r in itertools.product(range(len(CROPS)), repeat=n))
        for lst in lists:
            for mode in range(len(MODES)):
                case = {'lines': lst, 'bs': shard['bs'], 'ctx': shard['ctx'], 'mode': mode}
                if shard['bs'] in b['bsx'] and shard['ctx'] in b['ctxx']:
                    case['x'] = 1           # with the sub-sweeps 'mode changes on one engine' and 'every fault point of the call'
                guarded_check(mod, case, ctx)


def compare(pos, i, got, ref, mode, w, bs, ctx_, K, desc, sub, ctx, padding_is_blank=True):
    t, lg, co = got
    rt, rlg, rco = ref
    if t is None or (mode != 'nologits' and (lg is None or co is None)):
        ctx.violation('own-transcription-at-own-position', f'{K}/no-result-at-position',
                      f'{desc}: position {pos} (crop {CROPS[i]}) got transcription {t!r}, logits {"None" if lg is None else "present"}, window {co}', sub)
        return False
    if t != rt:
        ctx.violation('own-transcription-at-own-position', f'{K}/transcription',
                      f'{desc}: position {pos} (crop {CROPS[i]}) got {t!r}, alone it is {rt!r}', sub)
        return False
    if mode == 'nologits':
        if lg is not None:
            ctx.violation('own-logits-at-own-position', f'{K}/nologits-returns-logits', desc, sub)
            return False
        return True
    lg = todense(lg)
    if mode == 'tight':
        same = lg.shape == rlg.shape and np.abs(lg - rlg).max() <= 1e-5 if lg.size else lg.shape == rlg.shape
    else:
        n = min(lg.shape[0], rlg.shape[0])
        same = lg.shape[1] == rlg.shape[1] and np.abs(lg[:n] - rlg[:n]).max() <= 1e-5
        # frames beyond the line's own tensor are padding: they must decode to blank only
        if same and lg.shape[0] > n and padding_is_blank:
            extra = lg[n:]
            dense_extra = np.where(extra == 0, -80, extra)
            same = bool(np.all(np.argmax(dense_extra, axis=1) == C - 1))
    if not same:
        ctx.violation('own-logits-at-own-position', f'{K}/logits',
                      f'{desc}: position {pos} (crop {CROPS[i]}): logits differ from those of the line recognised alone', sub)
        return False
    if mode in ('dense', 'sparse'):
        # the returned logits are the whole buffer row of the line, the transcription is its greedy CTC decoding: frame 0 has no predecessor
        # (in particular not the last frame of the line before it in the batch).  Sparse storage: an entry that was pruned (posterior < 1e-4,
        # stored as 0; the stubs never output exactly 0) cannot be the arg-max of its frame
        want_t = greedy_ctc(lg if mode == 'dense' else np.where(lg == 0, -np.inf, lg))
        if want_t is not None:
            ctx.tag('transcription-decoded-again-from-the-returned-logits')
            if t != want_t:
                ctx.violation('own-transcription-at-own-position', f'{K}/transcription-vs-own-logits',
                              f'{desc}: position {pos} (crop {CROPS[i]}): transcription {t!r}, but the greedy CTC decoding of the logits returned for '
                              f'this line is {want_t!r}', sub)
                return False
    if list(co) != list(rco):
        ctx.violation('own-window-at-own-position', f'{K}/window', f'{desc}: position {pos}: window {co} vs alone {rco}', sub)
        return False
    if mode != 'tight' and 32 + w <= 480 * bs:          # the line's own pixels fit (only padding is cut): the window is its un-padded extent
        want = [32 // 4, (32 + w) // 4]
        if list(co) != want:
            ctx.violation('window-covers-unpadded-extent', f'{K}/window-extent', f'{desc}: position {pos}: window {co}, un-padded extent {want}', sub)
            return False
    return True


def page_lines(n):
    """the n crops (indices into CROPS) of a large page: narrow crops, neighbours differ in width and content"""
    narrow = [i for i, (w, _) in enumerate(CROPS) if w <= 100]
    return [narrow[(7 * k + k // 5) % len(narrow)] for k in range(n)]


def check_page(case, ctx):
    """One page of case['page'] lines in three regions (first half / none / second half) through a real PageOCR: every line of the page, in
    reading order, carries the transcription, logits, window and alphabet of ITS crop recognised alone (PageOCR's default engine batch size)"""
    import configparser
    import torch
    from mc import stubs
    from pero_ocr.core.layout import PageLayout, RegionLayout, TextLine
    from pero_ocr.document_ocr.page_parser import PageOCR
    n, cx = case['page'], case['ctx']
    lst = page_lines(n)
    ctx.state((('page', n), cx))
    K = f'{ID}/PageOCR/large-page'
    desc = f'page of {n} lines (regions of {n // 2}, 0 and {n - n // 2} lines; crops CROPS[i] for i in page_lines({n})) stub_ctx={cx}'
    cfg = configparser.ConfigParser()
    cfg['OCR'] = {'OCR_JSON': stubs.ctc_engine_json(C, CHARS, line_px_height=H, pool=4, bias_blank=3.0, ctx=cx, offset=0.25), 'USE_CPU': 'yes'}
    pocr = PageOCR(cfg['OCR'], torch.device('cpu'))
    page = PageLayout(id='p', page_size=(100, 100))
    regs = [RegionLayout('r1', np.zeros((4, 2))), RegionLayout('r2', np.zeros((4, 2))), RegionLayout('r3', np.zeros((4, 2)))]
    for pos, i in enumerate(lst):
        regs[0 if pos < n // 2 else 2].lines.append(TextLine(id=f'l{pos}', crop=crop(i)))
    page.regions = regs
    pocr.process_page(None, page)
    ctx.executed()
    got = list(page.lines_iterator())
    if [l.id for l in got] != [f'l{pos}' for pos in range(n)]:
        ctx.violation('own-transcription-at-own-position', f'{K}/lines-of-the-page-changed', f'{desc}: the page has lines {[l.id for l in got][:20]}... after recognition')
        return
    for pos, (line, i) in enumerate(zip(got, lst)):
        if not compare(pos, i, (line.transcription, line.logits, line.logit_coords), reference(i, 8, cx, 'sparse'), 'sparse', CROPS[i][0], 8, cx, K,
                       desc + f': line {pos} of the page', case, ctx):
            return
        if line.characters is None or list(line.characters) != CHARS + ['\u200b']:
            ctx.violation('own-transcription-at-own-position', f'{K}/alphabet', f'{desc}: line {pos} of the page has alphabet {line.characters!r}')
            return
    ctx.nontrivial((('page', n), cx), 'mixed-width-batches')
    ctx.tag('page-with-a-line-count-next-to-a-round-number')
    if n > 512:
        ctx.tag('page-with-more-than-512-lines')
    ctx.outcome(tuple(l.transcription for l in got))


def check_case(case, ctx):
    import configparser
    import torch
    from pero_ocr.core.layout import PageLayout, RegionLayout, TextLine
    from pero_ocr.document_ocr.page_parser import PageOCR
    if 'page' in case:
        return check_page(case, ctx)
    lst, bs, cx, mode = case['lines'], case['bs'], case['ctx'], MODES[case['mode']]
    ctx.state((tuple(lst), bs, cx, mode))
    if len(lst) > 255:
        ctx.tag('more-than-255-lines-in-one-call')
    K = f'{ID}/{mode}'
    desc = f'lines {[CROPS[i] for i in lst]} batch_size={bs} stub_ctx={cx} mode={mode}'
    eng = make_engine(bs, cx)
    imgs = [crop(i) for i in lst]
    out1 = run(eng, imgs, mode)
    ctx.executed()
    for name, o in (('transcriptions', out1[0]), ('logits', out1[1]), ('windows', out1[2])):
        if len(o) != len(lst):
            ctx.violation('own-transcription-at-own-position', f'{K}/result-count', f'{desc}: {len(o)} {name} for {len(lst)} lines')
            return
    ok = True
    for pos, i in enumerate(lst):
        ref = reference(i, bs, cx, mode)
        ok = compare(pos, i, (out1[0][pos], out1[1][pos], out1[2][pos]), ref, mode, CROPS[i][0], bs, cx, K, desc, case, ctx) and ok
        if not ok:
            return
    # 'does not depend on the batch size': a line whose own pixels fit the engine maximum of this batch size (only padding is cut) has, on its own
    # frame window, the logits it has under the largest budget, and the same text.  The alone-run above shares the budget of the call, so a line
    # that loses own pixels at a small budget loses them there too.  Strictly local stub only: no frame of the window can see the cut padding
    if mode in ('sparse', 'dense') and cx == 0 and bs != 16:
        for pos, i in enumerate(lst):
            w = CROPS[i][0]
            if w + 31 + 64 > 480 and 32 + w <= 480 * bs:
                bt, blg, bco = reference(i, 16, cx, mode)
                co = out1[2][pos]
                mine, big = todense(out1[1][pos])[co[0]:co[1]], blg[bco[0]:bco[1]]
                ctx.tag('line-that-just-fits-compared-with-the-largest-batch-size')
                if out1[0][pos] != bt or mine.shape != big.shape or (mine.size and not (np.abs(mine - big).max() <= 1e-5)):
                    ctx.violation('result-independent-of-batch-size', f'{K}/line-that-fits-differs-from-its-result-at-the-largest-batch-size',
                                  f'{desc}: position {pos} (crop {CROPS[i]}, its {w} px fit the {480 * bs} px of this engine): text {out1[0][pos]!r}, with '
                                  f'batch size 16 {bt!r}; logits on the own frame window equal: '
                                  f'{bool(mine.shape == big.shape and (not mine.size or np.abs(mine - big).max() <= 1e-5))}')
                    return
    # sparse storage: exactly the dense logits with posterior >= 1e-4
    if mode == 'sparse' and lst:
        d = run(make_engine(bs, cx), imgs, 'dense')
        ctx.executed()
        for pos in range(len(lst)):
            D = np.asarray(d[1][pos], dtype=np.float64)
            S = todense(out1[1][pos]).astype(np.float64)
            P = np.exp(D - np.logaddexp.reduce(D, axis=1)[:, None])
            sure = np.abs(P - 1e-4) > 1e-6
            want = np.where(P >= 1e-4, D, 0.0)
            if S.shape != D.shape or not np.all(np.isfinite(S)) or not np.all(np.abs(S - want)[sure] <= 1e-5):
                ctx.violation('sparse-keeps-posteriors-above-1e-4', f'{K}/sparsification',
                              f'{desc}: position {pos}: stored entries differ from the dense logits with posterior >= 1e-4')
                return
            if np.any((P >= 1e-4) & (P < 0.02)) and np.any(P < 1e-4):
                ctx.tag('sparse-keeps-small-and-prunes-smaller')
    # a network that switches a class off with -inf logits (posterior exactly 0): nothing but finite numbers may be stored, and exactly the
    # logits with posterior >= 1e-4
    if mode == 'sparse' and lst and len(lst) <= 2 and bs in (1, 16) and cx == 0:
        from mc import stubs
        me = stubs.make_masked_engine(C, CHARS, 1, line_px_height=H, batch_size=bs)
        sp = run(me, imgs, 'sparse')
        de = run(stubs.make_masked_engine(C, CHARS, 1, line_px_height=H, batch_size=bs), imgs, 'dense')
        ctx.executed(2)
        for pos in range(len(lst)):
            D = np.asarray(de[1][pos], dtype=np.float64)
            S = todense(sp[1][pos]).astype(np.float64)
            with np.errstate(invalid='ignore'):
                P = np.exp(D - np.logaddexp.reduce(D, axis=1)[:, None])
            sure = np.abs(P - 1e-4) > 1e-6
            want = np.where(P >= 1e-4, D, 0.0)
            ok = S.shape == D.shape and bool(np.all(np.isfinite(S))) and bool(np.all(np.abs(S - want)[sure] <= 1e-5))
            if not ok or sp[0][pos] != de[0][pos]:
                ctx.violation('sparse-keeps-posteriors-above-1e-4', f'{K}/sparsification/network-with-a-masked-class',
                              f'{desc}: position {pos}: network whose class 1 scores -inf everywhere: stored logits finite: '
                              f'{bool(np.all(np.isfinite(S)))}, equal to the dense logits with posterior >= 1e-4: {ok}; text sparse/dense '
                              f'{sp[0][pos]!r}/{de[0][pos]!r}')
                return
        ctx.tag('network-with-minus-infinity-logits')
    # history: the same engine recognises the list again in reverse order
    if len(lst) >= 2:
        out2 = run(eng, imgs[::-1], mode)
        ctx.executed()
        for pos, i in enumerate(lst[::-1]):
            ref = reference(i, bs, cx, mode)
            if not compare(pos, i, (out2[0][pos], out2[1][pos], out2[2][pos]), ref, mode, CROPS[i][0], bs, cx, f'{K}/second-call',
                           desc + ' (second call on the same engine, reversed order)', case, ctx):
                return
        widths = [CROPS[i][0] for i in lst]
        if len(set(widths)) > 1:
            ctx.nontrivial((tuple(lst), bs, cx, mode), 'mixed-width-batches')
        if any(w + 64 > 480 * bs for w in widths):
            ctx.tag('truncated-line')
        per_batch = max(1, (480 * bs) // int(np.ceil(max(widths) / 32.0) * 32))
        if per_batch < len(lst):
            ctx.tag('several-batches')
        if len(set(widths)) < len(widths):
            ctx.tag('equal-width-lines')
    ctx.outcome(tuple(out1[0]))
    # history over the mode alphabet: the SAME engine (already used in mode m, twice for lists of 2) recognises the list again in every other
    # mode, one after the other - all ordered pairs (mode of an earlier call, mode of a later call).  What a call returns may depend on its own
    # flags only, not on the flags of the calls before it
    if case.get('x') and 1 <= len(lst) <= 2:
        before = [mode] * min(len(lst), 2)
        for m2 in MODES:
            if m2 == mode:
                continue
            out5 = run(eng, imgs, m2)
            ctx.executed()
            for pos, i in enumerate(lst):
                if not compare(pos, i, (out5[0][pos], out5[1][pos], out5[2][pos]), reference(i, bs, cx, m2), m2, CROPS[i][0], bs, cx,
                               f'{ID}/{m2}/after-a-{mode}-call-on-the-same-engine',
                               desc + f' (then the same list in mode {m2} on the same engine, which had been called in modes {before} before)', case, ctx):
                    return
            before.append(m2)
            ctx.tag('mode-changed-between-calls-on-one-engine')
    # environment fault: the network call fails ONCE with an out-of-memory error on a batch of several lines (what a GPU does under pressure).
    # Whether process_lines gives up or recovers is its business; the NEXT call on the same engine must give every line its own result again
    if lst and len(lst) <= 3 and bs >= 2 and mode in ('sparse', 'dense') and cx == 0:
        fe = make_engine(bs, cx)
        real, fired = fe.run_ocr, []

        def failing_once(batch_data):
            if not fired and len(batch_data) > 1:
                fired.append(len(batch_data))
                raise RuntimeError('CUDA out of memory. Tried to allocate 2.00 GiB (injected by the harness)')
            return real(batch_data)
        fe.run_ocr = failing_once
        try:
            run(fe, [crop(3), crop(4)], mode)               # two narrow lines: one batch at every batch size >= 2
        except RuntimeError:
            pass
        del fe.run_ocr
        if fired:
            out4 = run(fe, imgs, mode)
            ctx.executed(2)
            for pos, i in enumerate(lst):
                ref = reference(i, bs, cx, mode)
                if not compare(pos, i, (out4[0][pos], out4[1][pos], out4[2][pos]), ref, mode, CROPS[i][0], bs, cx, f'{K}/call-after-an-out-of-memory-failure',
                               desc + f' (the call after one - on two narrow lines - in which the network raised out-of-memory once)', case, ctx):
                    return
            ctx.tag('call-after-an-injected-out-of-memory-error')
    # the same environment answer at EVERY fault point of the call on the list itself (mc/faults.py: the k-th network call of the call fails
    # once, k = 0, 1, ...; fresh engine for every k).  The call may raise (any exception); a value it RETURNS (a recovery: retry, smaller
    # batches) is a result like any other and must give every line its own result; so must the next call on that engine
    if case.get('x') and lst and len(lst) <= 3 and bs >= 2 and mode in ('sparse', 'dense'):
        from mc.faults import Injector
        inj = Injector([], lambda name: RuntimeError('CUDA out of memory. Tried to allocate 2.00 GiB (injected by the harness)'))
        k, n_calls = 0, 1
        while k < n_calls:
            fe = make_engine(bs, cx)
            inj.targets = [(fe, 'run_ocr')]
            with inj.active(k):
                try:
                    outf = run(fe, imgs, mode)
                except Exception:  # noqa - reporting the failure is permitted
                    outf = None
                site = inj.fired
            ctx.executed()
            if site is None:
                break                   # this run made fewer network calls than the last one: nothing was injected
            ctx.tag('network-failure-injected-at-every-network-call-of-a-call')
            fdesc = desc + f' (network call {k} of this call raised out-of-memory once)'
            if outf is not None:
                ctx.tag('call-with-a-failed-network-call-returned-a-value')
                if any(len(o) != len(lst) for o in outf):
                    ctx.violation('own-transcription-at-own-position', f'{K}/call-in-which-the-network-failed-once/result-count',
                                  f'{fdesc}: {[len(o) for o in outf]} transcriptions / logits / windows for {len(lst)} lines')
                    return
                for pos, i in enumerate(lst):
                    if not compare(pos, i, (outf[0][pos], outf[1][pos], outf[2][pos]), reference(i, bs, cx, mode), mode, CROPS[i][0], bs, cx,
                                   f'{K}/call-in-which-the-network-failed-once', fdesc + ': the call returned a value', case, ctx):
                        return
            with inj.active(None):
                outn = run(fe, imgs, mode)
                n_calls = inj.count
            ctx.executed()
            for pos, i in enumerate(lst):
                if not compare(pos, i, (outn[0][pos], outn[1][pos], outn[2][pos]), reference(i, bs, cx, mode), mode, CROPS[i][0], bs, cx,
                               f'{K}/call-after-an-out-of-memory-failure',
                               fdesc + f': the next call on the same engine, same list ({"a value had been returned" if outf is not None else "the failure had been reported"})', case, ctx):
                    return
            k += 1
    # engines with a writer/embedding id: changing engine.embed_id between two calls (as user_scripts/select_embed_id.py does) must
    # take effect for every line of the next call, whatever batches were run before
    # The stub favours class embed_id by a constant, so that the 32 px of black padding on either side of a line (and the frames up to the batch
    # width) read as the CHARACTER embed_id, not as blank: the first / last frame of a buffer row then carries a character, and a line's
    # transcription is still the greedy decoding of its own row.  Lists of 1-2: the padding character runs through the whole alphabet c, b, a
    if mode == 'sparse' and cx == 0 and len(lst) >= 1 and bs in (1, 16):
        from mc import stubs
        ee = stubs.make_embed_engine(C, CHARS, 0, line_px_height=H, batch_size=bs)
        run(ee, imgs[:2], mode)
        ctx.executed()
        for eid in ((2, 1, 0) if len(lst) <= 2 else (2,)):
            ee.embed_id = eid
            out3 = run(ee, imgs, mode)
            ctx.executed()
            for pos, i in enumerate(lst):
                key = ('embed', i, bs if CROPS[i][0] + 31 + 64 > 480 else 0) + ((eid,) if eid != 2 else ())
                if key not in _REF:
                    t, lg, co = run(stubs.make_embed_engine(C, CHARS, eid, line_px_height=H, batch_size=bs), [crop(i)], mode)
                    _REF[key] = (t[0], todense(lg[0]), co[0])
                if not compare(pos, i, (out3[0][pos], out3[1][pos], out3[2][pos]), _REF[key], mode, CROPS[i][0], bs, cx, f'{K}/after-embed-id-change',
                               desc + f' (embedding engine: 2 lines with embed_id 0, then the whole list with embed_id {", then ".join(str(e) for e in (2, 1, 0)[:(2, 1, 0).index(eid) + 1])})',
                               case, ctx, padding_is_blank=False):
                    return
            if eid != 2:
                ctx.tag('padding-reads-as-every-character-of-the-alphabet')
        ctx.tag('embedding-engine-id-changed-between-calls')
    # page level: PageOCR zips the results back onto the lines (default engine batch size)
    if mode == 'sparse' and bs == 1 and 1 <= len(lst) <= 3:
        from mc import stubs
        cfg = configparser.ConfigParser()
        cfg['OCR'] = {'OCR_JSON': stubs.ctc_engine_json(C, CHARS, line_px_height=H, pool=4, bias_blank=3.0, ctx=cx, offset=0.25), 'USE_CPU': 'yes'}
        pocr = PageOCR(cfg['OCR'], torch.device('cpu'))
        order = [p for p in range(len(lst)) if p % 2 == 0] + [p for p in range(len(lst)) if p % 2 == 1]
        # line ids as this library writes them (unique on the page), numbered per region (other tools), absent (pages imported from ALTO)
        for idmode, mk_id in (('unique', lambda pos: f'l{pos}'), ('per-region', lambda pos: f'l{pos // 2}'), ('absent', lambda pos: None)):
            page = PageLayout(id='p', page_size=(100, 100))
            regs = [RegionLayout('r1', np.zeros((4, 2))), RegionLayout('r2', np.zeros((4, 2)))]
            for pos, i in enumerate(lst):
                regs[pos % 2].lines.append(TextLine(id=mk_id(pos), crop=crop(i)))
            page.regions = regs
            pocr.process_page(None, page)
            ctx.executed()
            for line, pos in zip(page.lines_iterator(), order):
                ref = reference(lst[pos], 8, cx, 'sparse')
                if line.id != mk_id(pos) or line.transcription != ref[0] or line.logits is None or line.logit_coords is None or \
                        list(line.logit_coords) != list(ref[2]) or list(line.characters) != CHARS + ['​'] or \
                        not (np.abs(todense(line.logits)[:ref[1].shape[0]] - ref[1][:todense(line.logits).shape[0]]).max() <= 1e-5):
                    ctx.violation('own-transcription-at-own-position', f'{ID}/PageOCR/line-result-mismatch' + ('' if idmode == 'unique' else f'/{idmode}-line-ids'),
                                  f'{desc}: PageOCR.process_page put a wrong result (or none) on line {pos} (line ids {idmode}: {line.id!r}): '
                                  f'transcription {line.transcription!r}, expected {ref[0]!r}')
                    return
        ctx.tag('page-ocr-pages')
    if len(lst) == 2 and mode == 'sparse' and bs == 1 and cx == 0 and lst[0] == 7:
        ctx.sample({'crops': [CROPS[i] for i in lst], 'transcriptions': list(out1[0]), 'windows': [list(c) for c in out1[2]]})


def describe(tier):
    return {
        'rule': f'all ordered lists of 0..depth crops over the {len(CROPS)}-crop alphabet (thorough: + depth 4 over a 6-crop sub-alphabet) x batch sizes x '
                '4 modes x 2 stub networks; each list is recognised twice on one engine (second time reversed) and once through PageOCR; on the '
                'sub-lattice bsx x ctxx additionally in every other mode on that engine (lists of 1-2) and with each of its network calls failing once '
                '(lists of 1-3, sparse / dense). '
                'Page sub-sweep: one PageOCR page of B - 1, B, B + 1 lines for every B in page_bounds x stub in page_ctx (three regions, one of them empty), every '
                'line compared with its crop recognised alone. '
                'state = (list, batch size, stub, mode). Non-trivial: lists with lines of different widths (sorting/padding/permutation matter).',
        'bounds': BOUNDS[tier], 'alphabets': {'crops(width, content)': CROPS, 'modes': MODES, 'stubs(ctx)': STUBS},
        'assumptions': ['frames beyond a line\'s own tensor are padding and only need to decode to blank',
                        'over-long lines are compared with the alone-run under the same pixel budget (truncation depends on it)'],
        'min_nontrivial': 100,
        'required_tags': ['network-failure-injected-at-every-network-call-of-a-call', 'mode-changed-between-calls-on-one-engine',
                          'transcription-decoded-again-from-the-returned-logits', 'padding-reads-as-every-character-of-the-alphabet',
                          'call-after-an-injected-out-of-memory-error', 'network-with-minus-infinity-logits', 'more-than-255-lines-in-one-call', 'embedding-engine-id-changed-between-calls', 'mixed-width-batches', 'truncated-line', 'several-batches', 'equal-width-lines', 'page-ocr-pages',
                          'page-with-a-line-count-next-to-a-round-number', 'page-with-more-than-512-lines', 'line-that-just-fits-compared-with-the-largest-batch-size',
                          'sparse-keeps-small-and-prunes-smaller'],
    }
