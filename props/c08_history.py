"""C08 - A page's result does not depend on processing history or schedule.

Drivers (all real objects, long-lived across the events of a history):
 (1) PageDecoder around the real CTCPrefixLogRawNumpyDecoder / GreedyDecoder, with the real LMWrapper + a toy prefix-hash LM,
     with and without CARRY_H_OVER, with confident-line skipping at thresholds {None, 0.5, 0};
 (2) PageParser built by its real constructor from a generated config (line cropper + stub OCR engine + decoder), plus the
     same parser with an LM-carrying PageDecoder injected (construct_lm can only load brnolm files);
 (3) the multi-process mode modelled: a Pool worker is a fork-time copy of the parser that processes a subsequence of the
     task list and shares nothing -> every assignment of a batch to 2 workers, each worker a deepcopy;
 (4) one real run of parse_folder with --process-count 2 vs 1 (conformance smoke for the model in (3)).

Space: events = process(page) for a page alphabet (different last lines, all-confident page, empty page, single-line pages);
ALL histories up to depth D x all configurations.  A case is a history; the oracle is evaluated on its last event.

Oracle (differential): result(page | history) == result(page | fresh instance).
"""
import copy
import itertools
import os
import shutil
import subprocess
import sys

import numpy as np

ID = 'C08'

MANIFEST = dict(
    technique='explicit-state exploration of all page-processing histories on long-lived real PageDecoder / PageParser objects x decoder configurations; differential oracle against a fresh instance; parallel mode modelled as share-nothing deep copies over all task assignments, plus a real multi-process conformance run',
    text='Bounded exhaustive: every history of up to 3 (quick) / 4 (thorough) pages over an 8-page alphabet (6 core pages beyond depth 2) on one PageDecoder in 21 configurations (greedy, beam, beam+LM and beam-1+LM with and without carried state x confidence threshold None/0.5/0) and over a 5-page image alphabet on one PageParser in 4 configurations; the last page of every history must come out exactly as from a fresh instance (transcriptions, confidences, logits). Every assignment of every 3-page batch to two fork-time copies must equal the sequential run, and parse_folder --process-count 2 must write the same PAGE XML and line crops as --process-count 1 (model-free stage, as the tool supports). Added: beam-1 + LM configurations, a page that needs a beam of three prefixes and a page whose first frame has a single candidate (all histories of up to two pages include them); every history of up to three imports of PAGE documents whose lines carry no heights (the heights the loader derives must equal those of the document loaded on its own). Histories of pages through the model-free LINES_SIMPLE_THRESHOLD layout stage of one PageParser (sparse and densely traced region outlines). Added: two pages with a line that cannot be decoded (no logits; an LM primed from a kept line with an unknown character) in all PageDecoder histories of up to two pages; a run-length sweep (a 3-line and a 5-line page after n one-line pages for EVERY n up to 32 / 64, so that anything counted over the lifetime of the decoder passes every phase at every line of the last page); every history of up to 3 / 4 pages over a 7-page alphabet (text direction seen by a stub orientation network x baselines running right, left, down, up) through one PageParser with a LINE_FILTER stage in 2 configurations. Added (wave 11): every history of up to 2 / 3 pages over a 4-page alphabet around the width limit of the OCR engine (an ordinary page, the longest line that still fits, the shortest line that is cut, a line far over the limit next to a short one) on one PageParser in 2 configurations - the last page must come out (transcriptions, confidences, logits) as from a fresh parser; and the interpreter start as an environment answer: four pages whose lines have exactly tied best hypotheses (2-way and 4-way, 4 characters) x 4 decoder configurations x 2 thresholds, alone and in turn, decoded in one fresh interpreter per string-hash seed in {0,1,2,3} - every run must report the same transcriptions (which tied hypothesis wins is free, but not per run).',
    note='OS scheduling of real worker processes is modelled (share-nothing copies), not explored; toy LM; the CNN layout engine\'s adaptive down-sampling state needs a trained network and is not covered; separate interpreter runs differ in their string-hash seed only, 4 seeds of 2^32 are enumerated.',
    ref='3/C08')

LETTERS = ['a', 'b', '<BLANK>']
CHARS = ['a', 'b', '​']
# line alphabet for the PageDecoder driver: (rows of probabilities, transcription left by the OCR stage)
LINES = {
    'X1': ([[0.45, 0.45, 0.10], [0.05, 0.05, 0.90], [0.44, 0.46, 0.10]], 'ab'),     # a/b nearly tied twice: the LM decides
    'X2': ([[0.10, 0.10, 0.80], [0.46, 0.44, 0.10], [0.30, 0.30, 0.40]], 'a'),
    'X3': ([[0.40, 0.42, 0.18], [0.42, 0.40, 0.18]], 'ba'),
    'K': ([[0.98, 0.01, 0.01], [0.01, 0.01, 0.98], [0.01, 0.98, 0.01]], 'ab'),      # confident
    'K2': ([[0.01, 0.98, 0.01], [0.01, 0.01, 0.98]], 'b'),
    # W: 'b' (total mass 0.413) is only found by a beam of at least three prefixes - after the first frame it ranks third behind '' and 'a',
    #    with a narrower beam '' (0.252) wins;  Z: a line whose first frame has a single candidate character
    'W': ([[0.30, 0.28, 0.42], [0.05, 0.35, 0.60]], ''),
    'Z': ([[0.9, 1e-6, 0.1 - 1e-6], [0.05, 0.9, 0.05]], 'ab'),
    # lines that cannot be decoded (the page decoder logs the failure and goes on):  N: no logits at all (a .logits file that lacks the line);
    #    Kc: a confident line whose OCR text has a character the LM does not know - kept as it is under a threshold, and the NEXT line then
    #    fails when the LM is primed from it
    'N': (None, 'b'),
    'Kc': ([[0.98, 0.01, 0.01], [0.01, 0.01, 0.98], [0.01, 0.98, 0.01]], 'c'),
}
PAGES = {'A': ['X1', 'K', 'X2'], 'B': ['X1', 'K', 'X3'], 'C': ['K', 'K2'], 'D': [], 'E': ['X2'], 'F': ['X1', 'X3'], 'G': ['Z'], 'H': ['W', 'X3'],
         'I': ['X1', 'N', 'X2'], 'J': ['X1', 'Kc', 'X2', 'X3']}
PAGE_IDS = sorted(PAGES)
N_CORE_PAGES = 6                      # histories of three and more pages use the pages A-F; G - J take part in all histories of up to two
UNDECODABLE = {'I', 'J'}              # pages with a line on which decode_line raises (I: always; J: with an LM carried over a kept confident line)
# the run-length sweep: page `last` after n repetitions of the one-line page E, for EVERY n up to the bound - whatever the library counts over the
# lifetime of the decoder (lines, pages, calls) passes every phase at every line of the last page;  L: five ambiguous lines
RUN_PAGES = {'L': ['X1', 'X3', 'X2', 'X1', 'X3']}
RUN_FILL = 'E'
RUN_LAST = ['A', 'L']
RUN_THRESHOLDS = [0, 1]               # indices into THRESHOLDS
DEC_CFGS = ['greedy', 'beam', 'beam_lm', 'beam_lm_carry', 'beam1_lm', 'beam1_lm_carry', 'beam_dropoutlm_carry']      # last: an LM with dropout, handed over as constructed
THRESHOLDS = [None, 0.5, 0.0]
# page alphabet for the PageParser driver: painted lines (y, x0, symbols)
IMG_PAGES = {
    'P': [(10, 8, ['a', '_', 'b', 'ab', 'c']), (30, 20, ['ba', '_', 'bc', 'bc', 'a'])],
    'Q': [(12, 10, ['ab', 'ab', '_', 'ba']), (40, 30, ['c', '_', 'c'])],
    'R': [(20, 5, ['a', 'b', 'c', 'a', 'b', 'c'])],
    'S': [],
    'T': [(20, 5, ['c', 'b', 'a', 'c', 'b'])],        # one line, narrower than R's but with the same padded batch width
}
IMG_IDS = sorted(IMG_PAGES)
PARSER_CFGS = ['greedy', 'beam', 'beam_thr', 'lm_carry']
# pages for the width limit of the OCR engine (it takes at most 480 px per line of a full batch, i.e. 3840 px, and cuts what is longer): lines of
# (y, x0, painted blocks, symbols at the start, symbols at the end); a line of n blocks gives a crop of 8n - 2 px, which the engine rounds up to a
# multiple of 32 and pads by 2 x 32 px:  472 blocks -> 3840 px (the longest line that is NOT cut), 473 blocks -> 3872 px (the shortest that is),
# 540 blocks -> far over the limit (its last symbols lie beyond the cut), next to a short line
WIDE_PAGES = {
    'n': [(10, 8, 6, ['a', '_', 'b', 'ab'], ['c'])],
    'u': [(20, 8, 472, ['a', 'b'], ['c', 'a'])],
    'v': [(20, 8, 473, ['b', 'a'], ['c', 'b'])],
    'w': [(12, 8, 540, ['c', '_', 'a'], ['b', 'c']), (40, 30, 5, ['b'], ['a'])],
}
WIDE_IDS = sorted(WIDE_PAGES)
WIDE_SIZE = (60, 3840)
WIDE_CFGS = [0, 1]                    # indices into PARSER_CFGS
# separate interpreter runs ("a resumed run", "a parallel worker"): what an interpreter draws when it starts - the seed of its string hashes, which
# decides the iteration order of every set / dict of strings - is an answer of the environment; the same pages are decoded in one fresh interpreter
# per seed.  Lines over four characters whose best hypotheses TIE exactly (two or four characters with the very same probabilities in a frame):
# which of them is reported is the library's choice, but it has to be the same choice in every run
RESUME_SEEDS = [0, 1, 2, 3]
RLETTERS = ['a', 'b', 'c', 'd', '<BLANK>']
RCHARS = ['a', 'b', 'c', 'd', '\u200b']
RLINES = {
    'U': ([[.90, .02, .02, .02, .04], [.02, .02, .02, .02, .92], [.02, .90, .02, .02, .04]], 'ab'),           # no tie
    'Tab': ([[.44, .44, .01, .01, .10], [.02, .02, .02, .02, .92]], 'b'),                                     # a | b
    'Tcd': ([[.01, .01, .44, .44, .10], [.02, .02, .02, .02, .92]], 'c'),                                     # c | d
    'Tac': ([[.44, .01, .44, .01, .10]], 'c'),                                                                # a | c
    'Tbd': ([[.01, .44, .01, .44, .10]], 'b'),                                                                # b | d
    'T4': ([[.22, .22, .22, .22, .12]], 'd'),                                                                 # a | b | c | d
    'T22': ([[.44, .44, .01, .01, .10], [.02, .02, .02, .02, .92], [.01, .01, .44, .44, .10]], 'bc'),         # ac | ad | bc | bd
}
RPAGES = {'t1': ['U', 'Tab', 'Tcd'], 't2': ['Tac', 'U', 'Tbd'], 't3': ['T4', 'T22', 'U'], 't4': ['T22', 'Tab', 'Tac', 'Tcd', 'Tbd']}
RPAGE_IDS = sorted(RPAGES)
RESUME_CFGS = ['greedy', 'beam', 'beam_constlm_carry', 'beam_lm_carry']
RESUME_THRESHOLDS = [None, 0.5]
BOUNDS = {'quick': dict(depth=3, pdepth=3, run=32, fdepth=3, wdepth=2), 'thorough': dict(depth=4, pdepth=4, run=64, fdepth=4, wdepth=3)}
BOUNDS['replay'] = BOUNDS['quick']
TMP = '/verif/.cache/tmp'
REPO = os.path.abspath(os.environ.get('VERIF_REPO', '/repo'))


def setup(tier):
    from mc import pipeline
    os.makedirs(TMP, exist_ok=True)
    pipeline.engine_json()
    orientation_stub()
    from pero_ocr.core.force_alignment import force_align
    force_align(np.asarray([[0.1, 2.0], [2.0, 0.1]]), [0], 1)


def shards(tier):
    b = BOUNDS[tier]
    out = [{'kind': 'smoke'}, {'kind': 'resume'}]       # the slowest single cases first, so that they overlap with the rest
    for wc in WIDE_CFGS:
        for first in range(len(WIDE_IDS)):
            out.append({'kind': 'wide', 'cfg': wc, 'first': first})
    for dc in range(len(DEC_CFGS)):
        for th in range(len(THRESHOLDS)):
            for first in range(len(PAGE_IDS)):
                out.append({'kind': 'dec', 'cfg': [dc, th], 'first': first})
    for pc in range(len(PARSER_CFGS)):
        for first in range(len(IMG_IDS)):
            out.append({'kind': 'parser', 'cfg': pc, 'first': first})
    for pc in range(len(PARSER_CFGS)):
        for first in range(len(IMG_IDS)):
            out.append({'kind': 'parallel', 'cfg': pc, 'first': first})
    out.append({'kind': 'import'})
    for first in range(len(SIMPLE_IDS)):
        out.append({'kind': 'simple', 'first': first})
    for dc in range(len(DEC_CFGS)):
        for th in RUN_THRESHOLDS:
            for last in RUN_LAST:
                out.append({'kind': 'run', 'cfg': [dc, th], 'last': last})
    for fc in range(len(FILTER_CFGS)):
        for first in range(len(FILTER_IDS)):
            out.append({'kind': 'filter', 'cfg': fc, 'first': first})
    return out


# documents of a foreign tool: lines without stored heights (the loader derives them from the outline); X: 12 baseline points and an outline
# whose height grows along the line, Y: two such lines, Z: a short baseline
IMPORT_DOCS = {
    'X': [([[10 + 8 * k, 50 + (k % 3)] for k in range(12)], [[10, 45], [98, 20], [98, 70], [10, 55]])],
    'Y': [([[5 + 6 * k, 30] for k in range(15)], [[5, 28], [90, 10], [90, 40], [5, 33]]),
          ([[5 + 7 * k, 80 - k] for k in range(11)], [[5, 70], [80, 40], [80, 90], [5, 85]])],
    'Z': [([[10, 50], [60, 50]], [[10, 40], [60, 30], [60, 60], [10, 55]])],
}
IMPORT_IDS = sorted(IMPORT_DOCS)


def run_shard(shard, ctx, tier):
    from mc.core import guarded_check
    mod = sys.modules[__name__]
    b = BOUNDS[tier]
    if shard['kind'] == 'dec':
        for L in range(1, b['depth'] + 1):
            if 'dropout' in DEC_CFGS[shard['cfg'][0]] and L > 2:
                continue
            n = len(PAGE_IDS) if L <= 2 else N_CORE_PAGES
            if shard['first'] >= n:
                continue
            for rest in itertools.product(range(n), repeat=L - 1):
                guarded_check(mod, {'dec': shard['cfg'], 'hist': [shard['first']] + list(rest)}, ctx)
    elif shard['kind'] == 'parser':
        n = len(IMG_IDS)
        for L in range(1, b['pdepth'] + 1):
            for rest in itertools.product(range(n), repeat=L - 1):
                guarded_check(mod, {'parser': shard['cfg'], 'hist': [shard['first']] + list(rest)}, ctx)
    elif shard['kind'] == 'parallel':
        n = len(IMG_IDS)
        for rest in itertools.product(range(n), repeat=2):
            batch = [shard['first']] + list(rest)
            for assign in itertools.product((0, 1), repeat=3):
                guarded_check(mod, {'parallel': shard['cfg'], 'batch': batch, 'assign': list(assign)}, ctx)
    elif shard['kind'] == 'simple':
        n = len(SIMPLE_IDS)
        for L in range(1, b['pdepth'] + 1):
            for rest in itertools.product(range(n), repeat=L - 1):
                guarded_check(mod, {'simple': [shard['first']] + list(rest)}, ctx)
    elif shard['kind'] == 'run':
        for n in range(b['run'] + 1):
            guarded_check(mod, {'run': shard['cfg'], 'fill': RUN_FILL, 'n': n, 'last': shard['last']}, ctx)
    elif shard['kind'] == 'filter':
        n = len(FILTER_IDS)
        for L in range(1, b['fdepth'] + 1):
            for rest in itertools.product(range(n), repeat=L - 1):
                guarded_check(mod, {'filter': shard['cfg'], 'hist': [shard['first']] + list(rest)}, ctx)
    elif shard['kind'] == 'wide':
        n = len(WIDE_IDS)
        for L in range(1, b['wdepth'] + 1):
            for rest in itertools.product(range(n), repeat=L - 1):
                guarded_check(mod, {'wide': shard['cfg'], 'hist': [shard['first']] + list(rest)}, ctx)
    elif shard['kind'] == 'resume':
        guarded_check(mod, {'resume': True, 'seeds': list(RESUME_SEEDS)}, ctx)
    elif shard['kind'] == 'import':
        n = len(IMPORT_IDS)
        for L in range(1, 4):
            for h in itertools.product(range(n), repeat=L):
                for ver in (0, 1):
                    guarded_check(mod, {'import': list(h), 'ver': ver}, ctx)
    else:
        guarded_check(mod, {'smoke': True}, ctx)


# ------------------------------------------------------------------ driver 1: PageDecoder
def make_page_decoder(dc, th):
    from mc import stubs
    from pero_ocr.document_ocr.page_parser import PageDecoder
    from pero_ocr.decoding.decoders import GreedyDecoder, CTCPrefixLogRawNumpyDecoder
    name = DEC_CFGS[dc]
    if name == 'greedy':
        dec = GreedyDecoder(LETTERS)
    elif name == 'beam':
        dec = CTCPrefixLogRawNumpyDecoder(LETTERS, 4)
    else:
        dec = CTCPrefixLogRawNumpyDecoder(LETTERS, 1 if name.startswith('beam1') else 4, lm=stubs.make_lm_wrapper(3 if 'dropout' in name else 0, LETTERS[:-1]),
                                          lm_scale=1.0)
    return PageDecoder(dec, line_confidence_threshold=THRESHOLDS[th], carry_h_over=name.endswith('carry'))


def page_lines(pid):
    return PAGES[pid] if pid in PAGES else RUN_PAGES[pid]


def make_logit_page(pid, names=None):
    from scipy import sparse
    from pero_ocr.core.layout import PageLayout, RegionLayout, TextLine
    page = PageLayout(id=pid, page_size=(100, 100))
    reg = RegionLayout('r1', np.zeros((4, 2)))
    for k, name in enumerate(page_lines(pid) if names is None else names):
        rows, text = LINES[name]
        if rows is None:
            reg.lines.append(TextLine(id=f'l{k}', logits=None, characters=list(CHARS), transcription=text))
            continue
        M = np.log(np.asarray(rows, dtype=float))
        reg.lines.append(TextLine(id=f'l{k}', logits=sparse.csc_matrix(M), characters=list(CHARS), logit_coords=[0, M.shape[0]],
                                  transcription=text))
    page.regions.append(reg)
    return page


def pd_state(pd):
    """canonical form of whatever the page decoder carries between calls (today: last_line and the LM state last_h), read generically so that
    the check does not depend on how the library names or stores it; counters and timers are left out"""
    out = []
    for k, v in sorted(vars(pd).items()):
        if k in ('decoder', 'lines_examined', 'lines_decoded', 'seconds_decoding') or callable(v):
            continue
        try:
            if hasattr(v, 'prepare_for_torch'):
                t = v.prepare_for_torch()
                v = tuple(np.asarray(x).reshape(-1).round(6).tolist() for x in (t if isinstance(t, tuple) else (t,)))
            elif not isinstance(v, (str, int, float, bool, type(None), tuple)):
                v = type(v).__name__
        except Exception:  # noqa
            v = type(v).__name__
        out.append((k, v))
    return tuple(out)


def check_dec(case, ctx):
    dc, th = case['dec']
    hist = [PAGE_IDS[i] for i in case['hist']]
    pd = make_page_decoder(dc, th)
    owned = {'lines_examined', 'lines_decoded', 'seconds_decoding', 'last_h', 'last_line'}
    before = {k: v for k, v in vars(pd).items() if k not in owned}
    res = None
    for pid in hist:
        res = [l.transcription for l in pd.process_page(make_logit_page(pid)).lines_iterator()]
    ctx.executed(len(hist))
    after = {k: v for k, v in vars(pd).items() if k not in owned}
    if set(after) != set(before) or any(after[k] is not before[k] for k in before):
        ctx.tag('unowned-attribute-changed')
    ctx.state((dc, th, pd_state(pd)))
    fresh = [l.transcription for l in make_page_decoder(dc, th).process_page(make_logit_page(hist[-1])).lines_iterator()]
    ctx.executed()
    ctx.outcome((dc, th, tuple(res)))
    if res != fresh:
        prev = hist[-2] if len(hist) > 1 else None
        ctx.violation('result-independent-of-history', f'{ID}/PageDecoder/{DEC_CFGS[dc]}/depends-on-history',
                      f'decoder {DEC_CFGS[dc]}, threshold {THRESHOLDS[th]}: page {hist[-1]} after history {hist[:-1]} decodes to {res}, '
                      f'alone to {fresh} (previous page {prev})')
        return
    if len(hist) >= 2 and PAGES[hist[-2]] and DEC_CFGS[dc].endswith('carry') and PAGES[hist[-1]]:
        ctx.nontrivial((dc, th, tuple(hist)), 'predecessor-left-lm-context')
    if len(hist) >= 2 and hist[-1] == hist[-2]:
        ctx.tag('same-page-twice')
    if len(hist) >= 2 and hist[-2] in UNDECODABLE and DEC_CFGS[dc].endswith('carry') and PAGES[hist[-1]]:
        ctx.nontrivial((dc, th, tuple(hist)), 'predecessor-with-undecodable-line')
        if len(hist) == 2:
            # would it show if what the predecessor left behind reached this page?  decode the two pages as ONE page (the context then legitimately
            # flows from the predecessor's lines into these): if that changes these lines, a leak across the page boundary is observable here
            joined = make_page_decoder(dc, th).process_page(make_logit_page(hist[-1], PAGES[hist[-2]] + PAGES[hist[-1]]))
            ctx.executed()
            if [l.transcription for l in joined.lines_iterator()][len(PAGES[hist[-2]]):] != fresh:
                ctx.tag('context-of-page-with-undecodable-line-would-change-result')
    if len(hist) == 2 and dc == 3 and th == 0:
        ctx.sample({'decoder': DEC_CFGS[dc], 'history': hist, 'result': res})


# ------------------------------------------------------------------ driver 2: PageParser
def make_parser(pc):
    from mc import pipeline, stubs
    from pero_ocr.document_ocr.page_parser import PageDecoder
    from pero_ocr.decoding.decoders import CTCPrefixLogRawNumpyDecoder
    name = PARSER_CFGS[pc]
    if name == 'greedy':
        return pipeline.make_parser('GREEDY')
    if name == 'beam':
        return pipeline.make_parser('FAST-LOG-RAW', beam=3)
    if name == 'beam_thr':
        return pipeline.make_parser('FAST-LOG-RAW', beam=3, threshold=0.6)
    p = pipeline.make_parser('FAST-LOG-RAW', beam=3)
    letters = pipeline.CHARS + ['<BLANK>']
    dec = CTCPrefixLogRawNumpyDecoder(letters, 3, lm=stubs.make_lm_wrapper(1, pipeline.CHARS), lm_scale=1.0)
    p.decoder = PageDecoder(dec, line_confidence_threshold=0.9, carry_h_over=True)
    return p


def page_result(layout):
    out = []
    for l in layout.lines_iterator():
        lg = None if l.logits is None else np.asarray(l.logits.toarray()).round(5).tolist()
        out.append((l.id, l.transcription, None if l.transcription_confidence is None else round(float(l.transcription_confidence), 9),
                    lg, None if l.logit_coords is None else list(l.logit_coords)))
    return out


def process_img_page(parser, pid):
    from mc import pipeline
    img, lay = pipeline.make_page(IMG_PAGES[pid])
    lay.id = pid
    return page_result(parser.process_page(img, lay))


def brief(r):
    return [(x[0], x[1], x[2]) for x in r]


def check_parser(case, ctx):
    pc = case['parser']
    hist = [IMG_IDS[i] for i in case['hist']]
    parser = make_parser(pc)
    res = None
    for pid in hist:
        res = process_img_page(parser, pid)
    ctx.executed(len(hist))
    fresh = process_img_page(make_parser(pc), hist[-1])
    ctx.executed()
    ctx.state(('parser', pc, tuple(hist[-2:])))
    ctx.outcome(('parser', pc, str(brief(res))))
    if res != fresh:
        ctx.violation('result-independent-of-history', f'{ID}/PageParser/{PARSER_CFGS[pc]}/depends-on-history',
                      f'parser {PARSER_CFGS[pc]}: page {hist[-1]} after history {hist[:-1]} gives {brief(res)}, alone {brief(fresh)}')
        return
    if len(hist) >= 2 and IMG_PAGES[hist[-1]] and IMG_PAGES[hist[-2]]:
        ctx.nontrivial(('parser', pc, tuple(hist)), 'parser-history-with-predecessor')


def check_parallel(case, ctx):
    pc = case['parallel']
    batch = [IMG_IDS[i] for i in case['batch']]
    base = make_parser(pc)
    workers = [copy.deepcopy(base), copy.deepcopy(base)]
    par = [None] * len(batch)
    for w in (0, 1):
        for k, pid in enumerate(batch):
            if case['assign'][k] == w:
                par[k] = process_img_page(workers[w], pid)
    seq_parser = make_parser(pc)
    seq = [process_img_page(seq_parser, pid) for pid in batch]
    ctx.executed(2 * len(batch))
    ctx.state(('parallel', pc, tuple(batch), tuple(case['assign'])))
    ctx.outcome(('parallel', pc, str([brief(r) for r in seq])))
    if par != seq:
        k = [i for i in range(len(batch)) if par[i] != seq[i]][0]
        ctx.violation('result-independent-of-schedule', f'{ID}/parallel/{PARSER_CFGS[pc]}/differs-from-sequential',
                      f'parser {PARSER_CFGS[pc]}: batch {batch} split over two workers as {case["assign"]}: page #{k} ({batch[k]}) gives '
                      f'{brief(par[k])}, sequentially {brief(seq[k])}')
        return
    if len(set(case['assign'])) == 2:
        ctx.nontrivial(('parallel', pc, tuple(batch), tuple(case['assign'])), 'both-workers-used')


def check_smoke(case, ctx):
    """real multi-process run of parse_folder: --process-count 2 must write the same files as --process-count 1"""
    import cv2
    from mc import pipeline
    root = os.path.join(TMP, f'c08-smoke-{os.getpid()}')
    shutil.rmtree(root, ignore_errors=True)
    os.makedirs(os.path.join(root, 'img'))
    os.makedirs(os.path.join(root, 'xml'))
    for pid in IMG_IDS:
        img, lay = pipeline.make_page(IMG_PAGES[pid])
        lay.id = pid
        cv2.imwrite(os.path.join(root, 'img', pid + '.png'), img)
        lay.to_pagexml(os.path.join(root, 'xml', pid + '.xml'))
    # the model-free stage (line cropping) only: parse_folder sends the whole computator to the workers by pickling, which a
    # TorchScript OCR model does not support ("works mostly only for line cropping", as its --help says)
    with open(os.path.join(root, 'config.ini'), 'w') as f:
        f.write('[PAGE_PARSER]\nRUN_LAYOUT_PARSER = no\nRUN_LINE_CROPPER = yes\nRUN_OCR = no\nRUN_DECODER = no\n\n'
                f'[LINE_CROPPER]\nINTERP = 1\nLINE_SCALE = 1\nLINE_HEIGHT = {pipeline.H_LINE}\n')
    outs = {}
    for n in (1, 2):
        o = os.path.join(root, f'out{n}')
        env = dict(os.environ, PYTHONPATH=f'{REPO}:{REPO}/user_scripts')
        r = subprocess.run([sys.executable, os.path.join(REPO, 'user_scripts', 'parse_folder.py'), '-c', os.path.join(root, 'config.ini'),
                            '-i', os.path.join(root, 'img'), '-x', os.path.join(root, 'xml'), '--output-xml-path', os.path.join(o, 'xml'),
                            '--output-line-path', os.path.join(o, 'lines'), '--device', 'cpu', '--process-count', str(n)],
                           env=env, stdout=subprocess.PIPE, stderr=subprocess.STDOUT, text=True, timeout=600)
        ctx.executed()
        if r.returncode != 0:
            ctx.violation('result-independent-of-schedule', f'{ID}/smoke/parse_folder-failed', f'--process-count {n}: rc {r.returncode}: {r.stdout[-400:]}')
            shutil.rmtree(root, ignore_errors=True)
            return
        from pero_ocr.core.layout import PageLayout
        got = {}
        for pid in IMG_IDS:
            p = PageLayout(file=os.path.join(o, 'xml', pid + '.xml'))
            got[pid] = page_result(p)
        for fn in sorted(os.listdir(os.path.join(o, 'lines'))):
            with open(os.path.join(o, 'lines', fn), 'rb') as f:
                got['crop:' + fn] = [('bytes', len(f.read()), None)] if False else [(fn, __import__('hashlib').sha1(open(os.path.join(o, 'lines', fn), 'rb').read()).hexdigest(), None)]
        outs[n] = got
    shutil.rmtree(root, ignore_errors=True)
    ctx.state(('smoke',))
    ctx.outcome(('smoke', str({k: brief(v) for k, v in outs[1].items()})))
    if outs[1] != outs[2]:
        ctx.violation('result-independent-of-schedule', f'{ID}/smoke/process-count-2-differs',
                      f'parse_folder --process-count 2 wrote different results than --process-count 1')
        return
    ctx.nontrivial(('smoke',), 'real-multiprocess-run')


_IMPORT_XML = {}


def import_xml(doc, ver):
    from pero_ocr.core.layout import PageLayout, RegionLayout, TextLine, PAGEVersion
    key = (doc, ver)
    if key not in _IMPORT_XML:
        page = PageLayout(id=doc, page_size=(100, 120))
        reg = RegionLayout('r1', np.asarray([[0, 0], [120, 0], [120, 100], [0, 100]], dtype=float))
        for k, (bl, poly) in enumerate(IMPORT_DOCS[doc]):
            reg.lines.append(TextLine(id=f'l{k}', baseline=np.asarray(bl, dtype=float), polygon=np.asarray(poly, dtype=float), heights=None))
        page.regions.append(reg)
        _IMPORT_XML[key] = page.to_pagexml_string(version=[PAGEVersion.PAGE_2019_07_15, PAGEVersion.PAGE_2013_07_15][ver])
    return _IMPORT_XML[key]


def check_import(case, ctx):
    """loading a page is part of processing it: the line heights the loader derives for lines that carry none (they decide the crop, hence
    the transcription) must not depend on how many documents were loaded before"""
    from pero_ocr.core.layout import PageLayout
    hist = [IMPORT_IDS[i] for i in case['import']]
    ver = case['ver']
    ctx.reseed()
    got = None
    for doc in hist:
        p = PageLayout()
        p.from_pagexml_string(import_xml(doc, ver))
        got = [None if l.heights is None else [float(x) for x in l.heights] for l in p.lines_iterator()]
    np.random.seed(424242)
    q = PageLayout()
    q.from_pagexml_string(import_xml(hist[-1], ver))
    ref = [None if l.heights is None else [float(x) for x in l.heights] for l in q.lines_iterator()]
    ctx.executed(len(hist) + 1)
    ctx.state(('import', tuple(hist), ver))
    if any(g is None or r is None or len(g) != 2 or not all(abs(a - b) <= 1e-6 for a, b in zip(g, r)) for g, r in zip(got, ref)) or len(got) != len(ref):
        ctx.violation('result-independent-of-history', f'{ID}/import/derived-line-heights-depend-on-history',
                      f'documents {hist} loaded in turn (lines without stored heights): the last one gets heights {got}; loaded on its own '
                      f'(other random state) it gets {ref}')
        return
    ctx.outcome(('import', tuple(round(x, 3) for h in ref for x in h)))
    if len(hist) > 1:
        ctx.nontrivial(('import', tuple(hist), ver), 'import-after-other-imports')


# pages for the model-free line detection (LINES_SIMPLE_THRESHOLD): (page size, text seed, region outline, points per outline edge); the dense
# outlines (traced contours) of 'wholeD' and 'colD' begin and end with the same points and differ in between
SIMPLE_PAGES = {
    'whole': ((200, 300), 1, 'whole', 1), 'col': ((200, 300), 2, 'col', 1), 'wholeD': ((200, 300), 1, 'whole', 150), 'colD': ((200, 300), 2, 'col', 150),
    'small': ((160, 240), 3, 'whole', 1),
}
SIMPLE_IDS = sorted(SIMPLE_PAGES)
_SIMPLE = {}


def simple_page(pid):
    from pero_ocr.core.layout import PageLayout, RegionLayout
    if pid not in _SIMPLE:
        (H, W), seed, shape, per_edge = SIMPLE_PAGES[pid]
        rng = np.random.RandomState(seed)
        img = np.full((H, W, 3), 255, dtype=np.uint8)
        for x_from, x_to, y_off in ((15, W // 2 - 10, 0), (W // 2 + 15, W - 15, 10)):      # two columns of 'text', the right one 10 px lower
            for y in range(30 + y_off, H - 25, 24):
                x = x_from
                while x < x_to - 12:
                    w = rng.randint(10, 24)
                    img[y:y + 9, x:min(x + w, x_to)] = 0
                    x += w + rng.randint(4, 8)
        corners = [[5, 5], [W - 5, 5], [W - 5, H - 5], [5, H - 5]] if shape == 'whole' else \
            [[5, 5], [W - 5, 5], [W - 5, 12], [W // 2, 12], [W // 2, H - 5], [5, H - 5]]       # the left column and a thin strip at the top
        pts = []
        for i, a in enumerate(corners):
            a, b = np.asarray(a, dtype=float), np.asarray(corners[(i + 1) % len(corners)], dtype=float)
            for t in np.linspace(0, 1, per_edge, endpoint=False):
                pts.append(a + t * (b - a))
        _SIMPLE[pid] = (img, np.round(np.asarray(pts)).astype(np.int64), (H, W))
    img, poly, size = _SIMPLE[pid]
    layout = PageLayout(id=pid, page_size=size)
    layout.regions.append(RegionLayout('r1', poly.copy()))
    return img.copy(), layout


def simple_parser():
    import configparser
    import torch
    from pero_ocr.document_ocr.page_parser import PageParser
    cfg = configparser.ConfigParser()
    cfg.read_string('[PAGE_PARSER]\nRUN_LAYOUT_PARSER = yes\nRUN_LINE_CROPPER = no\nRUN_OCR = no\nRUN_DECODER = no\n\n'
                    '[LAYOUT_PARSER_1]\nMETHOD = LINES_SIMPLE_THRESHOLD\nADAPTIVE_THRESHOLD = 91\nBLOCK_SIZE = 21\nMINIMUM_LENGTH = 6\n'
                    'IGNORED_BORDER_PIXELS = 10\n')
    return PageParser(cfg, device=torch.device('cpu'))


def check_simple(case, ctx):
    """the model-free layout stage (threshold-based line detection inside given regions) on ONE parser, page after page: the lines found on
    the last page must be those a fresh parser finds on it alone"""
    hist = [SIMPLE_IDS[i] for i in case['simple']]

    def lines_of(layout):
        return [(l.id, np.asarray(l.baseline, dtype=float).round(3).tolist(), [float(h) for h in l.heights]) for l in layout.lines_iterator()]
    parser = simple_parser()
    got = None
    for pid in hist:
        img, layout = simple_page(pid)
        got = lines_of(parser.process_page(img, layout))
    img, layout = simple_page(hist[-1])
    ref = lines_of(simple_parser().process_page(img, layout))
    ctx.executed(len(hist) + 1)
    ctx.state(('simple', tuple(hist)))
    if got != ref:
        ctx.violation('result-independent-of-history', f'{ID}/PageParser/simple-line-detection/depends-on-history',
                      f'pages {hist} (size, text seed, region outline, points per edge: {[SIMPLE_PAGES[h] for h in hist]}) through one parser with '
                      f'LINES_SIMPLE_THRESHOLD: the last page gets {len(got)} lines {[g[0] for g in got]}, alone it gets {len(ref)} lines {[r[0] for r in ref]}')
        return
    ctx.outcome(('simple', hist[-1], len(ref)))
    if len(hist) > 1 and ref:
        ctx.nontrivial(('simple', tuple(hist)), 'model-free-line-detection-after-other-pages')


# ------------------------------------------------------------------ driver 1b: one page after a long run of pages (run-length sweep)
def check_run(case, ctx):
    """'decoding it after any sequence of other pages ... gives the same result as decoding it alone': the page `last` after n one-line pages, for
    every n up to the bound (histories far longer than the depth bound of the full enumeration, along one axis: their length)"""
    dc, th = case['run']
    n, last = case['n'], case['last']
    pd = make_page_decoder(dc, th)
    for _ in range(n):
        pd.process_page(make_logit_page(case['fill']))
    res = [l.transcription for l in pd.process_page(make_logit_page(last)).lines_iterator()]
    fresh = [l.transcription for l in make_page_decoder(dc, th).process_page(make_logit_page(last)).lines_iterator()]
    ctx.executed(n + 2)
    ctx.state(('run', dc, th, last, n, pd_state(pd)))
    ctx.outcome(('run', dc, th, last, tuple(res)))
    if res != fresh:
        ctx.violation('result-independent-of-history', f'{ID}/PageDecoder/{DEC_CFGS[dc]}/depends-on-length-of-history',
                      f'decoder {DEC_CFGS[dc]}, threshold {THRESHOLDS[th]}: page {last} {page_lines(last)} after {n} times the one-line page {case["fill"]} '
                      f'decodes to {res}, alone to {fresh} (lines that differ: {[k for k in range(len(fresh)) if res[k] != fresh[k]]})')
        return
    if n > BOUNDS['thorough']['depth'] * 4 and DEC_CFGS[dc].endswith('carry'):
        ctx.nontrivial(('run', dc, th, last, n), 'page-after-long-run-with-carried-lm-state')
    if n == 0 and DEC_CFGS[dc].endswith('carry'):
        # does the context gathered over SEVERAL lines matter on this page (would it show if it were cut short somewhere)?  the page without its
        # first line, decoded alone, gives its remaining lines a shorter context
        names = page_lines(last)
        cut = [l.transcription for l in make_page_decoder(dc, th).process_page(make_logit_page(last, names[1:])).lines_iterator()]
        ctx.executed()
        if cut != fresh[1:]:
            ctx.tag('context-older-than-previous-line-matters')


# ------------------------------------------------------------------ driver 5: PageParser with a LINE_FILTER stage (orientation network)
# The orientation network is a TorchScript stub whose answer is a local function of the image: direction x = 1 - 2 * channel 0, y = 1 - 2 * channel 1
# (pixel values / 256), so the colour of a page (or of a half of it) says which way its text runs; the filter keeps left-to-right lines
# unconditionally and every other line only if it runs the way the network sees the text under it.
FS = 256
_DIR_COLOUR = {'right': (0, 128), 'left': (255, 128), 'up': (128, 0), 'down': (128, 255)}


def _fl(kind, c):
    return {'R': [[30, c], [220, c]], 'L': [[220, c], [30, c]], 'D': [[c, 30], [c, 220]], 'U': [[c, 220], [c, 30]], 'r': [[5, c], [18, c]]}[kind]


# page: (direction seen in the upper half, direction seen in the lower half, lines)
FILTER_PAGES = {
    'plain': ('right', 'right', [('R', 50), ('R', 100)]),                           # never needs the map
    'margin': ('right', 'right', [('R', 50), ('R', 100), ('D', 240)]),              # upright page with a vertical note in the margin (dropped)
    'turned': ('left', 'left', [('R', 50), ('L', 100), ('L', 150), ('D', 240)]),    # upside-down scan, one line given left to right
    'flipped': ('left', 'left', [('L', 50), ('L', 100), ('L', 150)]),               # upside-down scan, all baselines right to left (all kept)
    'junk': ('right', 'right', [('R', 50), ('L', 100), ('L', 150)]),                # upright page with right-to-left junk lines (dropped)
    'halves': ('left', 'right', [('L', 50), ('R', 120), ('L', 200), ('r', 230)]),   # two scans on one sheet; a short line at the left edge
    'rotated': ('down', 'down', [('D', 60), ('D', 120), ('U', 180)]),               # page turned by 90 degrees (D kept, U dropped)
}
FILTER_IDS = sorted(FILTER_PAGES)
FILTER_CFGS = ['directions', 'directions+position+length']


def orientation_stub():
    """writes the stub network as <path>.cpu; returns (directory, file name without the suffix the loader appends on CPU)"""
    import torch
    from mc import stubs

    class DirectionFromColour(torch.nn.Module):
        def forward(self, x):
            return 1.0 - 2.0 * x[:, 0:2, :, :]
    os.makedirs(stubs.STUB_DIR, exist_ok=True)
    name = 'c08_direction_from_colour.pt'
    p = os.path.join(stubs.STUB_DIR, name + '.cpu')
    if not os.path.exists(p):
        tmp = p + f'.{os.getpid()}.tmp'
        torch.jit.script(DirectionFromColour()).save(tmp)
        os.replace(tmp, p)
    return stubs.STUB_DIR, name


def filter_parser(fc):
    import configparser
    import torch
    from pero_ocr.document_ocr.page_parser import PageParser
    d, name = orientation_stub()
    more = FILTER_CFGS[fc] != 'directions'
    cfg = configparser.ConfigParser()
    cfg.read_dict({'PAGE_PARSER': {'RUN_LAYOUT_PARSER': 'yes', 'RUN_LINE_CROPPER': 'no', 'RUN_OCR': 'no', 'RUN_DECODER': 'no'},
                   'LAYOUT_PARSER_1': {'METHOD': 'LINE_FILTER', 'FILTER_DIRECTIONS': 'yes', 'FILTER_INCOMPLETE_PAGES': 'yes' if more else 'no',
                                       'FILTER_PAGES_WITH_SHORT_LINES': 'yes' if more else 'no', 'LENGTH_THRESHOLD': '100' if more else '0',
                                       'USE_CPU': 'yes', 'MODEL_PATH': name}})
    return PageParser(cfg, device=torch.device('cpu'), config_path=d)


def filter_page(pid):
    from pero_ocr.core.layout import PageLayout, RegionLayout, TextLine
    top, bottom, lines = FILTER_PAGES[pid]
    img = np.zeros((FS, FS, 3), dtype=np.uint8)
    img[:FS // 2, :, 0], img[:FS // 2, :, 1] = _DIR_COLOUR[top]
    img[FS // 2:, :, 0], img[FS // 2:, :, 1] = _DIR_COLOUR[bottom]
    page = PageLayout(id=pid, page_size=(FS, FS))
    reg = RegionLayout('r1', np.asarray([[0, 0], [FS, 0], [FS, FS], [0, FS]], dtype=float))
    for k, (kind, c) in enumerate(lines):
        bl = np.asarray(_fl(kind, c), dtype=float)
        lo, hi = bl.min(axis=0) - 8, bl.max(axis=0) + 8
        reg.lines.append(TextLine(id=f'l{k}-{kind}{c}', baseline=bl, polygon=np.asarray([[lo[0], lo[1]], [hi[0], lo[1]], [hi[0], hi[1]], [lo[0], hi[1]]]),
                                  heights=[6, 2], transcription=f'{kind}{c}'))
    page.regions.append(reg)
    return img, page


def check_filter(case, ctx):
    """which lines of a page survive the filter (hence which transcriptions the page has) must be decided by that page: the last page of every
    history through ONE parser keeps exactly the lines it keeps in a fresh parser"""
    fc = case['filter']
    hist = [FILTER_IDS[i] for i in case['hist']]

    def kept(parser, pid):
        img, page = filter_page(pid)
        return [(r.id, l.id, l.transcription) for r in parser.process_page(img, page).regions for l in r.lines]
    parser = filter_parser(fc)
    got = None
    for pid in hist:
        got = kept(parser, pid)
    try:
        ref = kept(filter_parser(fc), hist[-1])
    except Exception as e:  # noqa - the page alone fails although it came out of the history: these are two different results as well
        ref = f'{type(e).__name__}: {e}'
    ctx.executed(len(hist) + 1)
    ctx.state(('filter', fc, tuple(hist[-2:])))
    if got != ref:
        ctx.violation('result-independent-of-history', f'{ID}/PageParser/line-filter/depends-on-history',
                      f'LINE_FILTER ({FILTER_CFGS[fc]}): page {hist[-1]!r} {FILTER_PAGES[hist[-1]]} after {hist[:-1]} keeps the lines '
                      f'{[g[1] for g in got]}; in a fresh parser: {[r[1] for r in ref] if isinstance(ref, list) else ref}')
        return
    ctx.outcome(('filter', fc, hist[-1], tuple(ref)))
    if len(hist) >= 2 and FILTER_PAGES[hist[-2]][:2] != FILTER_PAGES[hist[-1]][:2] and any(k != 'R' for k, _ in FILTER_PAGES[hist[-1]][2]):
        ctx.nontrivial(('filter', fc, tuple(hist)), 'line-filter-after-page-with-other-orientation-map')


# ------------------------------------------------------------------ driver 6: lines around the width limit of the OCR engine
def wide_page(pid):
    from mc import pipeline
    lines = [(y, x0, head + ['_'] * (n - len(head) - len(tail)) + tail) for y, x0, n, head, tail in WIDE_PAGES[pid]]
    img, lay = pipeline.make_page(lines, size=WIDE_SIZE)
    lay.id = pid
    return img, lay


def check_wide(case, ctx):
    """'decoding it after any sequence of other pages ... gives the same result as decoding it alone, and processing the same page twice gives
    identical output' for pages with a line at / just over / far over the width the OCR engine takes (what the engine does with such a line is
    C07's business; here: it does the same to the page whatever the parser has seen before)"""
    pc = case['wide']
    hist = [WIDE_IDS[i] for i in case['hist']]

    def process(parser, pid):
        img, lay = wide_page(pid)
        return page_result(parser.process_page(img, lay))
    parser = make_parser(pc)
    res = None
    for pid in hist:
        res = process(parser, pid)
    fresh = process(make_parser(pc), hist[-1])
    ctx.executed(len(hist) + 1)
    ctx.state(('wide', pc, tuple(hist)))
    ctx.outcome(('wide', pc, str(brief(res))))
    if res != fresh:
        n_res, n_fresh = [[None if x[3] is None else len(x[3]) for x in r] for r in (res, fresh)]
        ctx.violation('result-independent-of-history', f'{ID}/PageParser/{PARSER_CFGS[pc]}/line-at-engine-width-limit/depends-on-history',
                      f'parser {PARSER_CFGS[pc]}: page {hist[-1]!r} (lines of {[l[2] for l in WIDE_PAGES[hist[-1]]]} blocks; the engine takes 3840 px = 472 blocks) '
                      f'after history {hist[:-1]} gives {brief(res)} with {n_res} logit frames, alone {brief(fresh)} with {n_fresh} logit frames')
        return
    over = {p for p in WIDE_IDS if any(l[2] > 472 for l in WIDE_PAGES[p])}
    if len(hist) >= 2 and hist[-1] in over and hist[-2] in over:
        ctx.nontrivial(('wide', pc, tuple(hist)), 'over-long-line-after-page-with-over-long-line')
    # does the alphabet lie on both sides of the limit?  the symbols at the end of the longest line that fits come out, those of the over-long ones do not
    if len(hist) == 1:
        tail = ''.join(WIDE_PAGES[hist[0]][0][4])
        text = fresh[0][1] or ''
        if hist[0] == 'u' and text.endswith(tail):
            ctx.tag('longest-line-that-fits-the-engine-is-read-to-its-end')
        if hist[0] in over and not text.endswith(tail):
            ctx.tag('over-long-line-is-cut')


# ------------------------------------------------------------------ driver 7: the same pages in separate interpreter runs
def make_resume_decoder(name, th):
    from mc import stubs
    from pero_ocr.document_ocr.page_parser import PageDecoder
    from pero_ocr.decoding.decoders import GreedyDecoder, CTCPrefixLogRawNumpyDecoder
    if name == 'greedy':
        dec = GreedyDecoder(RLETTERS)
    elif name == 'beam':
        dec = CTCPrefixLogRawNumpyDecoder(RLETTERS, 4)
    else:
        dec = CTCPrefixLogRawNumpyDecoder(RLETTERS, 4, lm=stubs.make_lm_wrapper(2 if 'constlm' in name else 0, RLETTERS[:-1]), lm_scale=1.0)
    return PageDecoder(dec, line_confidence_threshold=th, carry_h_over=name.endswith('carry'))


def resume_page(pid):
    from scipy import sparse
    from pero_ocr.core.layout import PageLayout, RegionLayout, TextLine
    page = PageLayout(id=pid, page_size=(100, 100))
    reg = RegionLayout('r1', np.zeros((4, 2)))
    for k, name in enumerate(RPAGES[pid]):
        rows, text = RLINES[name]
        M = np.log(np.asarray(rows, dtype=float))
        reg.lines.append(TextLine(id=f'l{k}', logits=sparse.csc_matrix(M), characters=list(RCHARS), logit_coords=[0, M.shape[0]], transcription=text))
    page.regions.append(reg)
    return page


def resume_child(out_path):
    """runs in a fresh interpreter (its own string-hash seed): every page alone on a fresh decoder and all pages in turn on one decoder, per
    configuration; writes {key: [[transcription, confidence], ...]} and which lines have several best hypotheses of exactly the same score"""
    import json

    def lines_of(page):
        return [[l.transcription, None if l.transcription_confidence is None else float(l.transcription_confidence)] for l in page.lines_iterator()]
    out, ties = {}, []
    for name in RESUME_CFGS:
        for ti, th in enumerate(RESUME_THRESHOLDS):
            one = make_resume_decoder(name, th)
            for pid in RPAGE_IDS:
                for how, pd in (('alone', make_resume_decoder(name, th)), ('in-turn', one)):
                    try:
                        out[f'{name}|{ti}|{pid}|{how}'] = lines_of(pd.process_page(resume_page(pid)))
                    except Exception as e:  # noqa - a run that fails where another one succeeds differs from it as well
                        out[f'{name}|{ti}|{pid}|{how}'] = f'{type(e).__name__}: {e}'
    try:
        dec = make_resume_decoder('beam', None).decoder
        for pid in RPAGE_IDS:
            for l in resume_page(pid).lines_iterator():
                totals = list(dec(l.get_full_logprobs()).total_scores())
                if sum(1 for t in totals if t == max(totals)) > 1:
                    ties.append(f'{pid}/{l.id}')
    except Exception:  # noqa - only feeds the counter that says the alphabet has tied lines
        pass
    with open(out_path, 'w') as f:
        json.dump({'results': out, 'ties': ties}, f)


def check_resume(case, ctx):
    """'decoding it ... in a resumed run or in a parallel worker gives the same result as decoding it alone', 'depend only on that page and the
    configuration': the same pages, decoded by the same program in one fresh interpreter per hash seed, must come out the same in every run
    (transcriptions exactly, confidences up to round-off)"""
    import json
    from mc.core import HarnessError
    verif = os.path.dirname(os.path.dirname(os.path.abspath(__file__)))
    os.makedirs(TMP, exist_ok=True)
    seeds = list(case['seeds'])
    code = (f'import sys; sys.path[0:0] = [{REPO!r}, {os.path.join(REPO, "user_scripts")!r}, {verif!r}]; '
            'from props import c08_history as m; m.resume_child(sys.argv[1])')
    procs = []
    for sd in seeds:
        path = os.path.join(TMP, f'c08-resume-{os.getpid()}-{sd}.json')
        if os.path.exists(path):
            os.remove(path)
        env = dict(os.environ, PYTHONHASHSEED=str(sd), VERIF_REPO=REPO)
        procs.append((sd, path, subprocess.Popen([sys.executable, '-B', '-c', code, path], env=env, stdout=subprocess.PIPE, stderr=subprocess.STDOUT, text=True)))
    runs = {}
    for sd, path, pr in procs:
        log = pr.communicate(timeout=1800)[0]
        if pr.returncode != 0 or not os.path.exists(path):
            raise HarnessError(f'the interpreter with hash seed {sd} ended with rc {pr.returncode}: {log[-600:]}')
        with open(path) as f:
            runs[sd] = json.load(f)
        os.remove(path)
    ctx.executed(len(seeds))
    ctx.state(('resume', tuple(seeds)))
    ref = runs[seeds[0]]['results']
    ctx.outcome(('resume', str(sorted(ref.items()))))

    def same(a, b):
        if isinstance(a, str) or isinstance(b, str):
            return a == b
        return len(a) == len(b) and all(x[0] == y[0] and ((x[1] is None and y[1] is None) or (x[1] is not None and y[1] is not None and abs(x[1] - y[1]) <= 1e-9))
                                        for x, y in zip(a, b))
    for sd in seeds[1:]:
        got = runs[sd]['results']
        for key in sorted(ref):
            if key not in got or not same(ref[key], got[key]):
                name, ti, pid, how = key.split('|')
                ctx.violation('same-result-in-a-separate-run', f'{ID}/separate-interpreter-runs/{name}/result-differs-between-runs',
                              f'decoder {name}, threshold {RESUME_THRESHOLDS[int(ti)]}: page {pid} {RPAGES[pid]} ({how}) is decoded to {got.get(key)} by an interpreter '
                              f'started with string-hash seed {sd}, to {ref[key]} by one started with seed {seeds[0]} (same program, same page, same configuration)')
                return
    ctx.nontrivial(('resume', tuple(seeds)), 'pages-decoded-in-separate-interpreters')
    if all(runs[sd]['ties'] for sd in seeds) and len(seeds) > 1:
        ctx.tag('line-with-tied-best-hypotheses-in-separate-interpreters', len(runs[seeds[0]]['ties']))


def check_case(case, ctx):
    if 'run' in case:
        return check_run(case, ctx)
    if 'wide' in case:
        return check_wide(case, ctx)
    if 'resume' in case:
        return check_resume(case, ctx)
    if 'filter' in case:
        return check_filter(case, ctx)
    if 'import' in case:
        return check_import(case, ctx)
    if 'simple' in case:
        return check_simple(case, ctx)
    if 'dec' in case:
        check_dec(case, ctx)
    elif 'parser' in case:
        check_parser(case, ctx)
    elif 'parallel' in case:
        check_parallel(case, ctx)
    else:
        check_smoke(case, ctx)


def describe(tier):
    return {
        'rule': 'all histories of up to depth pages (10-page alphabet up to depth 2 - two of the pages have a line that cannot be decoded -, its 6 core pages beyond) on one PageDecoder x 7 decoder configurations x 3 thresholds; '
                'a 3-line and a 5-line page after n one-line pages for every n <= run x 7 decoder configurations x 2 thresholds; all histories of up to fdepth pages (7-page alphabet: '
                'page colour = text direction seen by a stub orientation network, lines running right / left / down / up) on one PageParser with a LINE_FILTER stage x 2 configurations; all histories '
                'of up to pdepth pages (5-page image alphabet) on one PageParser x 4 configurations; all histories of up to wdepth pages (4-page alphabet: lines at / just over / far over '
                'the width the OCR engine takes) on one PageParser x 2 configurations; 4 pages with exactly tied best hypotheses x 4 decoder configurations x 2 thresholds decoded in one fresh '
                'interpreter per string-hash seed (4 seeds), all runs compared; all 3-page batches x all assignments to 2 '
                'deep-copied workers; 1 real parse_folder run with 2 processes. state = (configuration, carried last_line / LM state) resp. '
                'recent history. Non-trivial: histories in which the predecessor page left LM context / had lines; assignments using both workers.',
        'bounds': BOUNDS[tier],
        'alphabets': {'pages': PAGES, 'lines': {k: v[1] for k, v in LINES.items()}, 'decoder_cfgs': DEC_CFGS,
                      'thresholds': [str(t) for t in THRESHOLDS], 'image_pages': {k: [l[2] for l in v] for k, v in IMG_PAGES.items()},
                      'parser_cfgs': PARSER_CFGS, 'run_pages': RUN_PAGES, 'run_last': RUN_LAST, 'run_fill': RUN_FILL,
                      'filter_pages': {k: [v[0], v[1], [f'{a}{b}' for a, b in v[2]]] for k, v in FILTER_PAGES.items()}, 'filter_cfgs': FILTER_CFGS,
                      'wide_pages': {k: [l[2] for l in v] for k, v in WIDE_PAGES.items()}, 'wide_cfgs': [PARSER_CFGS[i] for i in WIDE_CFGS],
                      'resume_pages': RPAGES, 'resume_cfgs': RESUME_CFGS, 'resume_seeds': RESUME_SEEDS},
        'assumptions': ['a Pool worker is a fork-time copy that shares nothing with the others (modelled by deepcopy)',
                        'counters lines_examined / lines_decoded / seconds_decoding only feed decoding_summary()',
                        'what differs between two interpreter runs of the same program is the string-hash seed (fixed to 0 for the explorer itself)'],
        'min_nontrivial': 50,
        'required_tags': ['model-free-line-detection-after-other-pages', 'import-after-other-imports', 'predecessor-left-lm-context', 'same-page-twice', 'parser-history-with-predecessor', 'both-workers-used',
                          'real-multiprocess-run', 'predecessor-with-undecodable-line', 'context-of-page-with-undecodable-line-would-change-result',
                          'page-after-long-run-with-carried-lm-state', 'context-older-than-previous-line-matters',
                          'line-filter-after-page-with-other-orientation-map',
                          'over-long-line-after-page-with-over-long-line', 'longest-line-that-fits-the-engine-is-read-to-its-end', 'over-long-line-is-cut',
                          'pages-decoded-in-separate-interpreters', 'line-with-tied-best-hypotheses-in-separate-interpreters'],
    }
