"""C04 - Greedy transcription is the CTC collapse of the arg-max path.

Space: ALL arg-max paths over C in {2,3,4} classes (blank last) of T <= Tmax frames, rendered as integer score tensors
in four styles (peaky, margin 1, close runner-up, and exact ties with later classes incl. blank, where the arg-max is the
first maximal index as in numpy / torch), and batched three ways:
 (i) every path of one (C,T) as ONE batch (contains the all-blank line, every leading/trailing-blank pattern ...),
 (ii) every ordered pair of paths of one (C,T<=Tp), (iii) every ordered triple for T<=Tt, each path also alone.
Each batch goes through: greedy_decode_ctc on the tensor; the REAL PytorchEngineLineOCR.run_ocr on a TorchScript stub
network whose output equals the enumerated tensor (scores painted into the line images); per line the stand-alone
GreedyDecoder (on the row log-softmax) and greedy_filtration.

Oracle: collapse(path) = merge adjacent repeats, drop blanks, map through the character table.
"""
import itertools

import numpy as np

ID = 'C04'

MANIFEST = dict(
    technique='explicit-state enumeration of all arg-max paths x margin styles x batch compositions; real greedy decoders and the real engine on a TorchScript stub vs the CTC-collapse reference',
    text='Bounded exhaustive: every arg-max path over 2..4 classes and up to 6 frames, in four score styles (incl. exact ties resolved to the first maximal index), decoded alone, as one batch per length, and in every ordered pair (T<=3) / triple (T<=2) of lines, through greedy_decode_ctc, the real PytorchEngineLineOCR.run_ocr (stub network reproducing the tensor), GreedyDecoder and greedy_filtration; every result is compared with the reference collapse, and the input tensor must stay unmodified. Added sub-sweeps: un-normalised scores of magnitude 5000, a character table containing U+200B, logits held while the next batch runs, the engine\'s logits handed to GreedyDecoder through a TextLine, lines of 300 frames, a batch of 300 lines and a 33 001-class output layer. A character table with an entry of two code points built through the engine constructor; one TextLine object that is handed the logits of line after line. A score style with classes of probability exactly zero (-inf scores / log-probabilities in losing classes: one-hot frames, one masked class, none, alternating) and, for the large scores, the float32 log(softmax) that underflows to -inf, through all three decoders; greedy_decode_ctc is also given the character table without an entry for the blank class (the real symbols only, as list and as tuple): it may refuse it, a returned text must be the collapse.',
    note='Exact ties are only placed on classes after the intended one (arg-max = first maximal index, the numpy / torch convention); the 2-D input branch of greedy_decode_ctc is not part of the property; T > 6 is not explored.',
    ref='3/C04')

BOUNDS = {'quick': dict(T=5, Tp=3, Tt=2), 'thorough': dict(T=6, Tp=4, Tt=3)}
BOUNDS['replay'] = BOUNDS['quick']
CHARS = ['a', 'b', 'c']
ZW = '\u200b'                           # the placeholder the engine appends to its character table for the blank class
STYLES = ['peaky', 'margin1', 'runnerup', 'tie_up', 'huge', 'uneven', 'masked']
NOT_PAINTABLE = ('huge', 'masked')      # styles whose scores do not fit the 8-bit pixels that carry the tensor into the stub network
H = 8
_ENG = {}


def collapse(path, blank):
    out, prev = [], None
    for s in path:
        if s != prev and s != blank:
            out.append(s)
        prev = s
    return out


def scores_for(paths, C, style):
    """[N, C, T] integer scores whose arg-max over classes is the given path"""
    N, T = len(paths), len(paths[0])
    if style == 'peaky':
        S = np.full((N, C, T), 10, dtype=np.int64)
        hi = 200
    elif style == 'margin1':
        S = np.full((N, C, T), 100, dtype=np.int64)
        hi = 101
    elif style == 'uneven':
        # the winning score differs from frame to frame (30 / 42 / 54, margin 2): a symbol that wins one frame scores 10-24 higher in others
        S = np.zeros((N, C, T), dtype=np.int64)
        for n, p in enumerate(paths):
            for t, c in enumerate(p):
                hi = 30 + 12 * ((t + n) % 3)
                S[n, :, t] = hi - 2
                S[n, c, t] = hi
        return S
    elif style == 'masked':
        # classes of probability exactly ZERO: a score / log-probability of -inf is a legitimate answer of a network (output classes masked
        # with -inf before the soft-max, log of a soft-max that underflowed).  The arg-max of every frame is finite and unambiguous.
        # Frame by frame (shifted from line to line): all the losing classes are -inf (a one-hot frame) / only the class after the winner
        # (a symbol, or blank when the winner is the last symbol; the first symbol when blank wins) / no class at all.
        S = np.full((N, C, T), 20.0, dtype=np.float64)
        for n, p in enumerate(paths):
            for t, c in enumerate(p):
                k = (t + n) % 3
                if k == 0:
                    S[n, :, t] = -np.inf
                elif k == 1:
                    S[n, (c + 1) % C, t] = -np.inf
                S[n, c, t] = 150.0
        return S
    elif style == 'huge':
        # un-normalised scores of large magnitude, beyond any constant a decoder might use as "certainly the largest"
        S = np.full((N, C, T), -3000, dtype=np.int64)
        hi = 5000
    else:
        S = np.full((N, C, T), 20, dtype=np.int64)
        hi = 150
    for n, p in enumerate(paths):
        for t, c in enumerate(p):
            S[n, c, t] = hi
            if style == 'runnerup':
                S[n, (c + 1) % C, t] = 149
            if style == 'tie_up':
                # exact ties with every LATER class (incl. blank): "the arg-max" of numpy and torch is the first maximal index
                S[n, c:, t] = hi
    return S


def setup(tier):
    from mc import stubs
    for C in (2, 3, 4):
        stubs.ctc_engine_json(C, CHARS[:C - 1], line_px_height=H, pool=1)
        stubs.ctc_engine_json(C, CHARS[:C - 1], line_px_height=H, pool=4)


CHARS_ZW = ['e\u0301', '\u200b', 'c']   # a charset whose first entry consists of two code points (a letter and a combining accent kept as ONE symbol) and
                                       # that holds the zero-width space as a regular symbol in the middle


def engine(C, zw=False, pool=1):
    key = (C, zw, pool)
    if key not in _ENG:
        from mc import stubs
        _ENG[key] = stubs.make_ctc_engine(C, (CHARS_ZW if zw else CHARS)[:C - 1], line_px_height=H, pool=pool)
    return _ENG[key]


def shards(tier):
    b = BOUNDS[tier]
    out = []
    for C in (2, 3, 4):
        for T in range(1, b['T'] + 1):
            for st in STYLES:
                out.append({'C': C, 'T': T, 'style': st, 'mode': 'level'})
                if T <= b['Tp']:
                    out.append({'C': C, 'T': T, 'style': st, 'mode': 'pairs'})
                if T <= b['Tt']:
                    out.append({'C': C, 'T': T, 'style': st, 'mode': 'triples'})
    for C in (2, 4):
        for st in ('peaky', 'tie_up'):
            out.append({'C': C, 'T': 300, 'style': st, 'mode': 'long'})      # sizes beyond 255: long lines and a batch of 300 lines
    out.append({'wide': 33001})                                               # an output layer beyond the int16 range
    return out


def run_shard(shard, ctx, tier):
    from mc.core import guarded_check
    import sys
    mod = sys.modules[__name__]
    if 'wide' in shard:
        ids = [7, 255, 256, 32767, 32768, 32999]
        for a_, b_ in itertools.product(ids, repeat=2):
            guarded_check(mod, {'wide': shard['wide'], 'path': [a_, 33000, b_, b_, a_, 33000, 7]}, ctx)
        return
    C, T, st = shard['C'], shard['T'], shard['style']
    if shard['mode'] == 'long':
        # lines of 300 frames: symbols changing every frame / every 2nd / every 7th frame, and one with 256 identical frames first
        longs = [[(i // k) % C for i in range(T)] for k in (1, 2, 7)] + [[0] * 256 + [(i % C) for i in range(T - 256)]]
        for p in longs:
            guarded_check(mod, {'C': C, 'T': T, 'style': st, 'lines': [p]}, ctx)
        guarded_check(mod, {'C': C, 'T': T, 'style': st, 'lines': longs}, ctx)
        # a batch of 300 three-frame lines (every arg-max path, repeated)
        short = [list(p) for p in itertools.product(range(C), repeat=3)]
        guarded_check(mod, {'C': C, 'T': 3, 'style': st, 'lines': [short[i % len(short)] for i in range(300)]}, ctx)
        return
    paths = [list(p) for p in itertools.product(range(C), repeat=T)]
    base = {'C': C, 'T': T, 'style': st}
    if shard['mode'] == 'level':
        guarded_check(mod, dict(base, lines='all'), ctx)
        for p in paths:
            guarded_check(mod, dict(base, lines=[p]), ctx)
    elif shard['mode'] == 'pairs':
        for a, b in itertools.product(paths, repeat=2):
            guarded_check(mod, dict(base, lines=[a, b]), ctx)
    else:
        for tr in itertools.product(paths, repeat=3):
            guarded_check(mod, dict(base, lines=[list(x) for x in tr]), ctx)


_WIDE = {}


def check_wide(case, ctx):
    """arg-max paths over a 33 001-class output layer (symbol ids on both sides of 255 / 32 767)"""
    import torch
    from pero_ocr.ocr_engine.pytorch_ocr_engine import greedy_decode_ctc
    from pero_ocr.decoding.decoders import GreedyDecoder, BLANK_SYMBOL
    C, path = case['wide'], case['path']
    blank = C - 1
    if C not in _WIDE:
        _WIDE[C] = [chr(0x10000 + i) for i in range(C - 1)]
    chars = _WIDE[C]
    T = len(path)
    S = torch.full((2, C, T), -5.0)
    for t, c in enumerate(path):
        S[0, c, t] = 9.0
        S[1, path[::-1][t], t] = 9.0
    want = [[c for c in collapse(p, blank)] for p in (path, path[::-1])]
    ctx.state(('wide', tuple(path)))
    ctx.tag('output-layer-beyond-int16')
    got = greedy_decode_ctc(S.clone(), chars + ['​'])
    ctx.executed()
    got_ids = [[ord(ch) - 0x10000 for ch in g] for g in got]
    if got_ids != want:
        ctx.violation('greedy-equals-collapse', f'{ID}/C33001/greedy_decode_ctc/text',
                      f'greedy_decode_ctc on {C} classes, arg-max paths {[path, path[::-1]]}: symbol ids {got_ids}, collapse gives {want}')
        return
    x = S[0].numpy().T.astype(np.float64)
    g = GreedyDecoder(chars + [BLANK_SYMBOL])(x - np.logaddexp.reduce(x, axis=1)[:, None]).best_hyp()
    ctx.executed()
    if [ord(ch) - 0x10000 for ch in g] != want[0]:
        ctx.violation('greedy-equals-collapse', f'{ID}/C33001/GreedyDecoder/text',
                      f'GreedyDecoder on {C} classes, path {path}: {[ord(ch) - 0x10000 for ch in g]}, collapse gives {want[0]}')
        return
    ctx.outcome(('wide', tuple(want[0])))


def check_case(case, ctx):
    import torch
    from pero_ocr.ocr_engine.pytorch_ocr_engine import greedy_decode_ctc
    if 'wide' in case:
        return check_wide(case, ctx)
    from pero_ocr.decoding.decoders import GreedyDecoder, BLANK_SYMBOL
    from pero_ocr.char_confidences import greedy_filtration
    C, T, style = case['C'], case['T'], case['style']
    blank = C - 1
    chars = CHARS[:C - 1]
    paths = [list(p) for p in itertools.product(range(C), repeat=T)] if case['lines'] == 'all' else case['lines']
    want = [''.join(chars[c] for c in collapse(p, blank)) for p in paths]
    S = scores_for(paths, C, style)
    K = f'{ID}/C{C}'
    for p in paths:
        ctx.state((C, tuple(p)))
    if len(paths) > 255 or T > 255:
        ctx.tag('more-than-255-frames-or-lines')
    ctx.outcome(tuple(want) if len(want) <= 3 else len(set(want)))

    def first_bad(got):
        if len(got) != len(want):
            return f'{len(got)} outputs for {len(want)} lines'
        for i, (g, w) in enumerate(zip(got, want)):
            if g != w:
                return f'line {i} path {paths[i]} -> {g!r}, collapse gives {w!r}'
        return None

    # (1) batched engine-side decoder on the tensor
    t = torch.tensor(S, dtype=torch.float32)
    before = t.clone()
    got = greedy_decode_ctc(t, chars + ['​'])
    ctx.executed()
    bad = first_bad(got)
    if bad:
        ctx.violation('greedy-equals-collapse', f'{K}/greedy_decode_ctc/{"count" if "outputs for" in bad else "text"}',
                      f'greedy_decode_ctc, batch of {len(paths)} lines, style {style}: {bad}')
    # the caller keeps using its tensor (the engine returns it as the line logits): decoding the same tensor object again gives the same text
    again = greedy_decode_ctc(t, chars + ['​'])
    ctx.executed()
    if not bad and list(again) != list(got):
        ctx.violation('greedy-equals-collapse', f'{K}/greedy_decode_ctc/second-call-on-the-same-tensor-differs',
                      f'greedy_decode_ctc, batch of {len(paths)} lines, style {style}: first call {list(got)[:4]}, second call on the same tensor '
                      f'{list(again)[:4]} (tensor modified: {not torch.equal(t, before)})')

    # the character table in the form the OCR json holds it (just the real symbols, list or tuple - what decoder_factory extends by <BLANK> for
    # the stand-alone decoder): blank is the last class OF THE SCORES and is never looked up, so the table needs no entry for it.  A decoder may
    # refuse such a table (any exception is accepted); a text that IS returned has to be the collapse mapped through that table.
    uses_last_symbol = any((C - 2) in p for p in paths)
    for form, table in (('list', list(chars)), ('tuple', tuple(chars))):
        try:
            bare = list(greedy_decode_ctc(t, table))
        except Exception:  # noqa
            ctx.tag('table-without-blank-entry-refused')
            continue
        finally:
            ctx.executed()
        if uses_last_symbol:
            ctx.tag('table-without-blank-entry')
        bad_b = first_bad(bare)
        if bad_b:
            ctx.violation('greedy-equals-collapse', f'{K}/greedy_decode_ctc/table-without-blank-entry/{"count" if "outputs for" in bad_b else "text"}',
                          f'greedy_decode_ctc with the character table {table!r} (the {C - 1} real symbols as a {form}, no entry for the blank class), '
                          f'batch of {len(paths)} lines, style {style}: {bad_b}; with the table {chars + [ZW]!r} it returns {list(got)[:4]}')
            break

    if style in NOT_PAINTABLE:
        ctx.tag('huge-scores' if style == 'huge' else 'zero-probability-classes')
        dec = got
    else:
        # (2) the real engine on a stub network that reproduces the tensor (8-bit pixels carry the scores: not for the 'huge' style)
        eng = engine(C)
        img = np.zeros((len(paths), H, T, 3), dtype=np.uint8)
        img[:, :C, :, 0] = S.astype(np.uint8)
        dec, logits = eng.run_ocr(img)
        ctx.executed()
        if logits.shape != (len(paths), T, C) or not (np.abs(logits - S.transpose(0, 2, 1)).max() <= 1e-3):
            # is it the stub (harness) or the engine?  ask the network itself, the way run_ocr feeds it
            with torch.no_grad():
                direct = eng.model(torch.from_numpy(img).float().div(255.0).permute(0, 3, 1, 2)).numpy()
            if direct.shape != S.shape or not (np.abs(direct - S).max() <= 1e-3):
                from mc.core import HarnessError
                raise HarnessError('stub network does not reproduce the enumerated tensor')
            ctx.violation('engine-and-standalone-agree', f'{K}/engine.run_ocr/returned-logits-are-not-the-network-outputs',
                          f'PytorchEngineLineOCR.run_ocr, batch of {len(paths)} lines, style {style}: returned logits of shape {logits.shape} differ from '
                          f'the network output (shape {S.transpose(0, 2, 1).shape}) it decoded')
            return
        bad = first_bad(list(dec))
        if bad:
            ctx.violation('engine-and-standalone-agree', f'{K}/engine.run_ocr/{"count" if "outputs for" in bad else "text"}',
                          f'PytorchEngineLineOCR.run_ocr, batch of {len(paths)} lines, style {style}: {bad}')
        if len(paths) <= 3:
            # history: the logits handed out for this batch must stay what they were after the engine has processed another batch
            held, snap = logits, logits.copy()
            other = img[::-1].copy()
            other[:, :C, :, 0] = np.roll(other[:, :C, :, 0], 1, axis=1)
            eng.run_ocr(other)
            ctx.executed()
            if not np.array_equal(held, snap):
                ctx.violation('engine-and-standalone-agree', f'{K}/engine.run_ocr/returned-logits-change-after-the-next-batch',
                              f'run_ocr, batch of {len(paths)} lines: the logits returned for this batch were overwritten by the following run_ocr call')
            # the hand-over to the stand-alone decoder: the engine's logits stored on a TextLine (sparse), densified and normalised there
            if style in ('margin1', 'runnerup', 'peaky'):
                from scipy import sparse
                from pero_ocr.core.layout import TextLine
                for i, p in enumerate(paths):
                    tl = TextLine(id='l', logits=sparse.csc_matrix(snap[i].astype(np.float64) * 0.1 + 0.05), characters=chars + ['​'], logit_coords=[0, T])
                    g3 = GreedyDecoder(chars + [BLANK_SYMBOL])(tl.get_full_logprobs()).best_hyp()
                    ctx.executed()
                    if g3 != want[i]:
                        ctx.violation('engine-and-standalone-agree', f'{K}/engine-logits-via-TextLine/GreedyDecoder',
                                      f'path {p} (style {style}): the engine decodes {want[i]!r}; its logits (x 0.1 + 0.05) stored on a TextLine and '
                                      f'decoded by GreedyDecoder from get_full_logprobs() give {g3!r}', dict(case, lines=[p]))
                        break
            # the same hand-over through process_lines (sparse storage of the logits, frame window): what the page decoder does with a line
            if style in ('uneven', 'margin1'):
                from scipy import sparse as _sp
                from pero_ocr.core.layout import TextLine
                eng4 = engine(C, pool=4)            # process_lines assumes the usual 4 pixel columns per frame
                wide = np.repeat(img, 4, axis=2)
                tr, lgs, cos = eng4.process_lines([wide[i] for i in range(len(paths))])
                ctx.executed()
                held = None
                for i, p in enumerate(paths):
                    tl = TextLine(id='l', logits=lgs[i], characters=chars + ['​'], logit_coords=cos[i])
                    full = tl.get_full_logprobs()
                    # the same hand-over through ONE line object that is given the logits of line after line (a page that is recognised again)
                    if held is None:
                        held = TextLine(id='h', logits=lgs[i], characters=chars + ['​'], logit_coords=cos[i])
                    else:
                        held.logits, held.logit_coords = lgs[i], cos[i]
                    g6 = GreedyDecoder(chars + [BLANK_SYMBOL])(held.get_full_logprobs()).best_hyp()
                    ctx.executed()
                    if g6 != tr[i]:
                        ctx.violation('engine-and-standalone-agree', f'{K}/process_lines-sparse-logits/GreedyDecoder-on-a-reused-line-object',
                                      f'paths {paths} (style {style}): one TextLine object is given the logits of line {i} after those of the lines before '
                                      f'it; GreedyDecoder on its log-probabilities gives {g6!r}, process_lines transcribed {tr[i]!r}', dict(case))
                        break
                    g4 = GreedyDecoder(chars + [BLANK_SYMBOL])(full[cos[i][0]:cos[i][1]]).best_hyp()
                    g5 = GreedyDecoder(chars + [BLANK_SYMBOL])(full).best_hyp()
                    ctx.executed(2)
                    # (the padded margins of the crop are part of the network output too: the engine's text is compared with the stand-alone
                    # decoder on ALL frames, the collapse of the enumerated path with the stand-alone decoder on the line's own frame window)
                    if g5 != tr[i] or g4 != want[i]:
                        ctx.violation('engine-and-standalone-agree', f'{K}/process_lines-sparse-logits/GreedyDecoder',
                                      f'path {p} (style {style}): process_lines transcribes {tr[i]!r}, GreedyDecoder on all frames of the sparse logits it '
                                      f'returns gives {g5!r}; on the frame window {list(cos[i])} it gives {g4!r}, collapse of the path gives {want[i]!r}',
                                      dict(case, lines=[p]))
                        break
                ctx.tag('process_lines-sparse-hand-over')
            # a charset with the zero-width space in the middle is mapped like any other symbol
            if C == 4 and style == 'peaky':
                dec2, _ = engine(C, zw=True).run_ocr(img)
                ctx.executed()
                want2 = [''.join(CHARS_ZW[c] for c in collapse(p, blank)) for p in paths]
                if list(dec2) != want2:
                    ctx.violation('greedy-equals-collapse', f'{K}/engine.run_ocr/charset-with-zero-width-space',
                                  f'engine with characters {CHARS_ZW!r}: paths {paths} -> {list(dec2)!r}, the character table gives {want2!r}')

    # (3,4) stand-alone decoders, line by line
    letters = chars + [BLANK_SYMBOL]
    gd = GreedyDecoder(letters)
    zp = '-with-zero-probability-classes' if style == 'masked' else ''
    if C == 4 and style == 'peaky' and len(paths) <= 3:
        # a character table with symbols that Unicode normalisation would change (ANGSTROM SIGN, OHM SIGN, a decomposed letter): the
        # transcription consists of exactly the table entries
        odd = ['\u212b', '\u2126', 'e\u0301']
        gdo = GreedyDecoder(odd + [BLANK_SYMBOL])
        for i, p in enumerate(paths):
            x = S[i].T.astype(np.float64)
            go = gdo(x - np.logaddexp.reduce(x, axis=1)[:, None]).best_hyp()
            wo = ''.join(odd[c] for c in collapse(p, blank))
            ctx.executed()
            if go != wo:
                ctx.violation('greedy-equals-collapse', f'{K}/GreedyDecoder/character-table-not-normalisation-stable',
                              f'GreedyDecoder with the table {[o.encode("unicode_escape").decode() for o in odd]} on path {p}: '
                              f'{go.encode("unicode_escape").decode()!r}, the table gives {wo.encode("unicode_escape").decode()!r}', dict(case, lines=[p]))
                break
        ctx.tag('non-nfc-character-table')
    for i, p in enumerate(paths):
        x = S[i].T.astype(np.float64)
        lp = x - np.logaddexp.reduce(x, axis=1)[:, None]
        g = gd(lp).best_hyp()
        ctx.executed()
        if g != want[i]:
            ctx.violation('greedy-equals-collapse', f'{K}/GreedyDecoder/text{zp}',
                          f'GreedyDecoder on path {p} (style {style}) -> {g!r}, collapse gives {want[i]!r}' +
                          (f'; log-probabilities {lp.tolist()}' if zp else ''),
                          dict(case, lines=[p]))
        if style == 'huge':
            # the same output normalised the plain way in single precision, log(softmax(x)): the soft-max of the losing classes underflows
            # to exactly 0 and its log is -inf - properly normalised log-probabilities with the same arg-max path
            x32 = S[i].T.astype(np.float32)
            e = np.exp(x32 - x32.max(axis=1, keepdims=True))
            with np.errstate(divide='ignore'):
                lp32 = np.log(e / e.sum(axis=1, keepdims=True))
            if not np.isneginf(lp32).any() or not (lp32.argmax(axis=1) == np.asarray(p)).all():
                from mc.core import HarnessError
                raise HarnessError('log(softmax) of the huge scores did not underflow to -inf / changed the arg-max path')
            gu = gd(lp32).best_hyp()
            ctx.executed()
            ctx.tag('underflowed-softmax-log-probs')
            if gu != want[i]:
                ctx.violation('greedy-equals-collapse', f'{K}/GreedyDecoder/text-from-log-of-an-underflowed-softmax',
                              f'GreedyDecoder on path {p}: the float32 log(softmax) of the scores (0 for the winning class, -inf for the others) '
                              f'-> {gu!r}, collapse gives {want[i]!r}', dict(case, lines=[p]))
        g2, _ = greedy_filtration(S[i].T.astype(np.float32), chars + ['​'])
        ctx.executed()
        if g2 != want[i]:
            ctx.violation('greedy-equals-collapse', f'{K}/greedy_filtration/text{zp}',
                          f'greedy_filtration on path {p} (style {style}) -> {g2!r}, collapse gives {want[i]!r}',
                          dict(case, lines=[p]))
        if len(paths) <= 3:
            col = collapse(p, blank)
            if col and len(col) < sum(1 for c in p if c != blank):
                ctx.nontrivial((C, tuple(p)), 'repeat-merged')
            if col and p[0] != blank:
                ctx.tag('first-frame-non-blank')
            if not col:
                ctx.tag('all-blank-line')
    if len(paths) > 1 and len(set(want)) > 1 and '' in want:
        ctx.nontrivial(('batch', C, T, style, str(case['lines'])[:200]), 'batch-with-empty-and-non-empty-lines')
    if case['lines'] != 'all' and len(paths) == 2 and T == 2:
        ctx.sample({'paths': paths, 'style': style, 'decoded': list(dec)})


def describe(tier):
    b = BOUNDS[tier]
    return {
        'rule': 'all arg-max paths for C in {2,3,4}, T<=T x 3 margin styles; batches: each path alone, all paths of one (C,T) '
                'as one batch, every ordered pair (T<=Tp) and triple (T<=Tt). state = distinct (C, path). Non-trivial: a path '
                'whose collapse merges a repeat, or a batch that mixes empty and non-empty results.',
        'bounds': b, 'alphabets': {'styles': STYLES, 'classes': [2, 3, 4]},
        'assumptions': ['with exact ties the arg-max is the first maximal index (numpy / torch convention)', 'scores are integers 0..255 so that they can be painted into uint8 line images (the styles huge and masked do not go through the engine)',
                        '-inf only ever stands in a class that loses its frame; NaN and +inf are not explored (the arg-max would not be defined)'],
        'min_nontrivial': 50,
        'required_tags': ['zero-probability-classes', 'underflowed-softmax-log-probs', 'table-without-blank-entry', 'non-nfc-character-table', 'process_lines-sparse-hand-over', 'output-layer-beyond-int16', 'more-than-255-frames-or-lines', 'huge-scores', 'repeat-merged', 'first-frame-non-blank', 'all-blank-line', 'batch-with-empty-and-non-empty-lines'],
    }
