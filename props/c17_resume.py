"""C17 - Resuming an interrupted batch completes every requested output.

Driver: the REAL user_scripts/parse_folder.main(), run in-process with -s/--skip-processed on a generated folder (2 pages,
image + PAGE XML input, stub OCR engine so that logits / ALTO exist).  A kill is a BaseException raised by wrappers around
builtins.open(.., 'w'/'wb') and cv2.imwrite for paths under the output folders, BEFORE the k-th write of a run -- it unwinds
main() like SIGKILL between two writes (the tool only catches Exception), no torn files.

Space (fault enumeration by explicit-state search): state = output tree (file names + canonical contents). Events from a
state: run(crash before write k) for EVERY k in 0..W-1 (W = number of writes an uninterrupted run from that state performs) and
run-to-completion.  Breadth-first search over distinct states up to `crashes` successive crashes; from every reached state a final
uninterrupted resume is executed and checked.  x requested output subsets x page-id sets (ids with dots / extension substrings).

Line-crop sink: jpg files, or (shards with 'lmdb') an LMDB environment (OUTPUT_LINE_PATH containing 'lmdb').  There the unit of writing is the
write TRANSACTION: lmdb.open / lmdb.Environment are wrapped, the start of every write transaction under the output folders is a kill point like
the file writes, the state of the environment is the set of its committed records (key -> bytes), and environments a run leaves open are closed
as the end of the process would close them (what was handed over but not committed is lost).

Oracle: final tree == tree of one uninterrupted run; main() returns normally (also when nothing is left to do); a page that was
complete before a run is not processed again (no writes for it, no "Processing <id>").
"""
import contextlib
import hashlib
import io
import itertools
import os
import pickle
import shutil
import sys
import unittest.mock
import weakref

import numpy as np

ID = 'C17'

MANIFEST = dict(
    technique='explicit-state search over crash points: every write position of every reachable output-tree state is a kill point for the real parse_folder.main() (in-process fault injection at open/imwrite), up to k successive crashes, x output subsets x page-id sets; oracle = uninterrupted run',
    text='Bounded exhaustive fault enumeration: for each configuration the state graph of output trees is explored breadth-first; in every reachable state the real tool is run with a kill injected before each of its writes (and once to completion), up to 2 (quick) / 3 (thorough) successive crashes on 3 pages (one of them without lines); from every reached state an uninterrupted resume must end with exactly the files of an uninterrupted run, return normally, and not re-process pages that were already complete. Configurations: all 31 non-empty subsets of {xml, render, logits, alto, lines} x 4 page-id sets (plain, dotted, containing ".xml." / ".jpg."). Added: expected file names of an uninterrupted run, and a kill before every write of a model-free batch followed by a resume with the real command-line tool and --process-count 3 (2-4 thorough). PAGE XML, rendering and logits written to one shared output directory. Line crops stored in an LMDB environment (every subset with crops and at least one per-page output x 2 (quick) / 4 page-id sets): the start of every write transaction is a kill point, the state is the set of committed records, so crops that are handed over but committed later than the page\'s completion record are lost by a kill and never written by the resume.',
    note='Kills happen between writes (no torn files); 3 pages; lmdb line output only in the single-process loop and together with at least one per-page output; runs are in-process (the tool\'s own argument parsing, parser construction and write path are the real ones).',
    ref='3/C17')

KINDS = ['xml', 'render', 'logits', 'alto', 'lines']
ID_SETS = [['p1', 'p2', 'p3'], ['a', 'a.b', 'a.b.c'], ['x', 'x.xml.y', 'x.xml'], ['scan', 'scan.jpg.v2', 'scan.jpg']]
QUICK_SUBSETS = [[0, 1, 2, 3, 4], [0], [0, 1], [0, 2], [0, 3], [0, 4], [2, 3], [4]]
BOUNDS = {'quick': dict(crashes_full=2, crashes_other=2, pages=3, procs=[3], lmdb_ids=[0, 2]),
          'thorough': dict(crashes_full=3, crashes_other=3, pages=3, procs=[2, 3, 4], lmdb_ids=[0, 1, 2, 3])}
MP_SUBSET = [0, 1, 4]          # xml, render, line crops: the outputs of a configuration without an OCR model
MP_WRITES = 9                   # writes of an uninterrupted run of that configuration on the three pages (checked)
BOUNDS['replay'] = BOUNDS['quick']
TMP = '/verif/.cache/tmp'
LMDB_DIR = 'lines_lmdb'       # name of the line-crop output folder of a world whose crops go into an LMDB environment
PAGE_LINES = [[(10, 8, ['a', '_', 'b', 'ab', 'c']), (30, 20, ['ba', '_', 'bc', 'bc', 'a'])], [(12, 10, ['ab', 'ab', '_', 'ba'])], []]


class Kill(BaseException):
    pass


def setup(tier):
    from mc import pipeline
    os.makedirs(TMP, exist_ok=True)
    pipeline.engine_json()
    from pero_ocr.core.force_alignment import force_align
    force_align(np.asarray([[0.1, 2.0], [2.0, 0.1]]), [0], 1)
    import parse_folder  # noqa  (import before forking)


def subsets(tier):
    return [list(s) for r in range(1, 6) for s in itertools.combinations(range(5), r)]


def shards(tier):
    out = []
    for si, sub in enumerate(subsets(tier)):
        for ii in range(len(ID_SETS)):
            out.append({'subset': sub, 'ids': ii, 'pages': BOUNDS[tier]['pages']})
    # biggest state graphs first
    out.sort(key=lambda s: -len(s['subset']))
    # a parser without an OCR stage that is given PAGE XML + logits of an earlier run and asked for PAGE XML / rendering / ALTO
    for sub in ([0, 3], [3], [0, 1, 3]):
        for ii in range(len(ID_SETS)):
            out.append({'subset': sub, 'ids': ii, 'pages': BOUNDS[tier]['pages'], 'inlogits': 1})
    # PAGE XML, rendering and logits in ONE output directory (their extensions differ; ALTO and the line crops keep their own)
    for sub in ([0, 1], [0, 2], [1, 2], [0, 1, 2], [0, 1, 2, 3, 4]):
        for ii in (0, 2):
            out.append({'subset': sub, 'ids': ii, 'pages': BOUNDS[tier]['pages'], 'shared': 1})
    # the second sink of the line crops: an LMDB environment (OUTPUT_LINE_PATH containing 'lmdb') - every subset that asks for the crops
    # next to at least one per-page output (crops alone leave no record of completion with either sink: the recorded finding)
    for sub in subsets(tier):
        if 4 in sub and len(sub) > 1:
            for ii in BOUNDS[tier]['lmdb_ids']:
                out.append({'subset': sub, 'ids': ii, 'pages': BOUNDS[tier]['pages'], 'lmdb': 1})
    # resume in several worker processes (the model-free stages, which is what --process-count supports): one shard per kill point
    for n in BOUNDS[tier]['procs']:
        for k in range(MP_WRITES + 1):
            out.append({'mp': n, 'crash': k, 'ids': (k + n) % len(ID_SETS)})
    return out


# ------------------------------------------------------------------ the world
class World:
    def __init__(self, subset, ids_i, tag, npages=2, model_free=False):
        import cv2
        from mc import pipeline
        self.subset, self.ids = subset, ID_SETS[ids_i][:npages]
        self.skip_missing_xml = ids_i % 2 == 1          # every second id set also passes --skipp-missing-xml (every image has its PAGE XML)
        self.root = os.path.join(TMP, f'c17-{os.getpid()}-{tag}')
        shutil.rmtree(self.root, ignore_errors=True)
        os.makedirs(os.path.join(self.root, 'img'))
        os.makedirs(os.path.join(self.root, 'xml'))
        for pid, lines in zip(self.ids, PAGE_LINES):
            img, lay = pipeline.make_page(lines)
            lay.id = pid
            cv2.imwrite(os.path.join(self.root, 'img', pid + '.png'), img)
            lay.to_pagexml(os.path.join(self.root, 'xml', pid + '.xml'))
        with open(os.path.join(self.root, 'config.ini'), 'w') as f:
            if model_free:
                f.write('[PAGE_PARSER]\nRUN_LAYOUT_PARSER = no\nRUN_LINE_CROPPER = yes\nRUN_OCR = no\nRUN_DECODER = no\n\n'
                        f'[LINE_CROPPER]\nINTERP = 1\nLINE_SCALE = 1\nLINE_HEIGHT = {pipeline.H_LINE}\n')
            else:
                f.write(pipeline.config_text('GREEDY'))
        self.out = os.path.join(self.root, 'out')

    def dir_of(self, kind):
        """output directory of a kind; in a 'shared' world PAGE XML, rendering and logits (three different extensions) go to ONE directory"""
        if kind == 'lines' and getattr(self, 'lmdb', False):
            return LMDB_DIR              # an OUTPUT_LINE_PATH with 'lmdb' in it: the crops become records of one LMDB environment
        return 'shared' if getattr(self, 'shared', False) and kind in ('xml', 'render', 'logits') else kind

    def argv(self):
        a = ['parse_folder.py', '-c', os.path.join(self.root, 'config.ini'), '-i', os.path.join(self.root, 'img'),
             '-x', os.path.join(self.root, 'xml'), '--device', 'cpu', '-s']
        flags = {'xml': '--output-xml-path', 'render': '--output-render-path', 'logits': '--output-logit-path',
                 'alto': '--output-alto-path', 'lines': '--output-line-path'}
        for k in self.subset:
            a += [flags[KINDS[k]], os.path.join(self.out, self.dir_of(KINDS[k]))]
        if self.skip_missing_xml:
            a += ['--skipp-missing-xml']
        if getattr(self, 'input_logits', None):
            a += ['--input-logit-path', self.input_logits]
        return a

    def run(self, crash_before=None):
        """one run of the real main(); returns dict(killed, error, writes=[relpaths], stdout)"""
        import cv2
        import parse_folder
        writes = []
        out_prefix = self.out + os.sep
        real_open, real_imwrite = open, cv2.imwrite

        def gate(path):
            p = os.path.abspath(str(path))
            if p.startswith(out_prefix):
                if crash_before is not None and len(writes) == crash_before:
                    raise Kill()
                writes.append(os.path.relpath(p, self.out))

        def open_w(file, mode='r', *a, **kw):
            if isinstance(file, (str, bytes, os.PathLike)) and any(c in mode for c in 'wax+'):
                gate(file)
            return real_open(file, mode, *a, **kw)

        def imwrite_w(path, *a, **kw):
            gate(path)
            return real_imwrite(path, *a, **kw)

        # an LMDB environment under the output folders: its unit of writing is the write TRANSACTION (all or nothing), so the start of
        # every write transaction is a position between two writes like any other; what was handed to the tool but not yet committed
        # dies with the process (the harness closes the environments a run leaves open, as the end of the process would)
        envs = []
        res = {'killed': False, 'error': None, 'lmdb_kill': False}

        class Env:
            def __init__(self, *a, **kw):
                self._path = str(kw['path'] if 'path' in kw else a[0])
                self._env = real_env(*a, **kw)
                envs.append(weakref.ref(self))      # the tool decides how long an environment lives (it may rely on it being closed when dropped)

            def begin(self, *a, **kw):
                if kw.get('write', a[2] if len(a) > 2 else False):
                    try:
                        gate(os.path.join(self._path, 'data.mdb'))
                    except Kill:
                        res['lmdb_kill'] = True
                        raise
                return self._env.begin(*a, **kw)

            def __getattr__(self, name):
                return getattr(self._env, name)

            def __enter__(self):
                return self

            def __exit__(self, *a):
                self._env.close()

        patches = [unittest.mock.patch('builtins.open', open_w), unittest.mock.patch.object(cv2, 'imwrite', imwrite_w)]
        if getattr(self, 'lmdb', False):
            import lmdb
            real_env = lmdb.Environment
            patches += [unittest.mock.patch.object(lmdb, 'open', Env), unittest.mock.patch.object(lmdb, 'Environment', Env)]

        buf = io.StringIO()
        old_argv = sys.argv
        sys.argv = self.argv()
        try:
            with contextlib.redirect_stdout(buf), contextlib.ExitStack() as stack:
                for p in patches:
                    stack.enter_context(p)
                parse_folder.main()
        except Kill:
            res['killed'] = True
        except SystemExit as e:
            if e.code not in (0, None):
                res['error'] = f'SystemExit({e.code})'
        except Exception as e:  # noqa
            res['error'] = f'{type(e).__name__}: {e}'
        finally:
            sys.argv = old_argv
            for env in envs:
                if env() is not None:
                    env()._env.close()
        res['writes'] = writes
        res['stdout'] = buf.getvalue()
        return res

    # ---- snapshots
    def snapshot(self):
        snap = {}
        for r, _, files in os.walk(self.out):
            if 'data.mdb' in files:
                # an LMDB environment: the state is its committed records (key -> value), not the bytes of its page file
                snap.update((os.path.join(os.path.relpath(r, self.out), k), v) for k, v in read_lmdb(r).items())
                continue
            for fn in files:
                p = os.path.join(r, fn)
                with open(p, 'rb') as f:
                    snap[os.path.relpath(p, self.out)] = f.read()
        return snap

    def restore(self, snap):
        shutil.rmtree(self.out, ignore_errors=True)
        records = {}
        for rel, data in snap.items():
            p = os.path.join(self.out, rel)
            os.makedirs(os.path.dirname(p), exist_ok=True)
            if getattr(self, 'lmdb', False) and rel.split(os.sep)[0] == LMDB_DIR:
                records[os.path.basename(rel)] = data
                continue
            with open(p, 'wb') as f:
                f.write(data)

        if records:
            import lmdb
            env = lmdb.open(os.path.join(self.out, LMDB_DIR), map_size=1 << 28)
            try:
                with env.begin(write=True) as txn:
                    for k in sorted(records):
                        txn.put(k.encode(), records[k])
            finally:
                env.close()

    def close(self):
        shutil.rmtree(self.root, ignore_errors=True)


def read_lmdb(path):
    import lmdb
    env = lmdb.open(path, readonly=True, lock=False)
    try:
        with env.begin() as txn:
            return {bytes(k).decode(): bytes(v) for k, v in txn.cursor()}
    finally:
        env.close()


def canon_file(rel, data):
    if rel.endswith('.xml'):
        import lxml.etree as ET
        try:
            root = ET.fromstring(data)
        except Exception:  # noqa
            return 'unparseable:' + hashlib.sha1(data).hexdigest()
        for el in list(root.iter()):
            tag = el.tag.split('}')[-1] if isinstance(el.tag, str) else ''
            if tag in ('Created', 'LastChange', 'processingDateTime'):
                el.getparent().remove(el)
        return hashlib.sha1(ET.tostring(root, method='c14n')).hexdigest()
    if rel.endswith('.logits'):
        try:
            d = pickle.loads(data)
            parts = []
            for k in sorted(d, key=str):
                v = d[k]
                parts.append((str(k), v.toarray().tolist() if hasattr(v, 'toarray') else repr(v)))
            return hashlib.sha1(repr(parts).encode()).hexdigest()
        except Exception:  # noqa
            return 'unparseable:' + hashlib.sha1(data).hexdigest()
    return hashlib.sha1(data).hexdigest()


def canon(snap):
    return tuple(sorted((rel, canon_file(rel, data)) for rel, data in snap.items()))


def page_of(rel, ids):
    """which page an output file belongs to (longest id first: ids may be prefixes of one another)"""
    base = os.path.basename(rel)
    for pid in sorted(ids, key=len, reverse=True):
        if base.startswith(pid + '.') or base.startswith(pid + '-'):
            rest = base[len(pid):]
            if rest in ('.xml', '.jpg', '.logits') or rest.startswith('-r1-l'):
                return pid
    return None


def complete_pages(state, ref, ids):
    refd, st = dict(ref), dict(state)
    done = []
    for pid in ids:
        files = [rel for rel in refd if page_of(rel, ids) == pid]
        if files and all(st.get(rel) == refd[rel] for rel in files):
            done.append(pid)
    return done


def evaluate(world, hist, ref, ctx, case):
    """state reached by `hist` is on disk; run the final uninterrupted resume and check all clauses"""
    K = f'{ID}/{"+".join(KINDS[k] for k in world.subset)}' + ('/parser-without-ocr-fed-with-saved-logits' if getattr(world, 'input_logits', None) else '') + \
        ('/xml-render-logits-in-one-directory' if getattr(world, 'shared', False) else '') + \
        ('/line-crops-in-lmdb' if getattr(world, 'lmdb', False) else '')
    before = canon(world.snapshot())
    done_before = complete_pages(before, ref, world.ids)
    r = world.run(None)
    ctx.executed()
    after = canon(world.snapshot())
    desc = (f'outputs {[KINDS[k] for k in world.subset]}' + (' (PAGE XML, rendering and logits written to one directory)' if getattr(world, 'shared', False) else '') +
            (' (line crops written as records of an LMDB environment; a write = one committed transaction)' if getattr(world, 'lmdb', False) else '') +
            f', page ids {world.ids}, crash points {hist} (kill before the k-th write of each run), '
            f'then an uninterrupted resume')
    if r['error']:
        nothing = len(done_before) == len(world.ids)
        key = f'{K}/resume-fails-when-nothing-left/{r["error"].split(":")[0]}' if nothing else f'{K}/resume-fails/{r["error"].split(":")[0]}'
        ctx.violation('resume-exits-cleanly', key, f'{desc}: main() ended with {r["error"]} (pages complete before the run: {done_before})', case)
        return False
    if after != ref:
        missing = sorted(set(dict(ref)) - set(dict(after)))
        extra = sorted(set(dict(after)) - set(dict(ref)))
        differ = sorted(rel for rel in dict(ref) if rel in dict(after) and dict(after)[rel] != dict(ref)[rel])
        kinds = sorted({{LMDB_DIR: 'lines'}.get(m.split(os.sep)[0], m.split(os.sep)[0]) if m.split(os.sep)[0] != 'shared'
                        else {'.xml': 'xml', '.jpg': 'render'}.get(os.path.splitext(m)[1], 'logits') for m in missing + differ + extra})
        ctx.violation('every-output-present-and-equal', f'{K}/incomplete-after-resume/{"+".join(kinds)}',
                      f'{desc}: missing {missing}, different {differ}, unexpected {extra}', case)
        return False
    redone = sorted({page_of(w, world.ids) for w in r['writes']} & set(done_before))
    said = [pid for pid in done_before if f'Processing {pid}\n' in r['stdout']]
    if redone or said:
        ctx.violation('complete-pages-not-processed-again', f'{K}/complete-page-reprocessed',
                      f'{desc}: pages {sorted(set(redone) | set(said))} were already complete but were processed again', case)
        return False
    return True


def explore(shard, ctx, tier, only_hist=None):
    """BFS over output-tree states; `only_hist` = replay exactly one history (used by --replay)"""
    b = BOUNDS[tier]
    full = len(shard['subset']) == 5
    depth = b['crashes_full'] if full else b['crashes_other']
    if shard.get('inlogits'):
        # inputs = the PAGE XML and logits an earlier complete run (with OCR) produced; the parser under test only loads them
        src = World([0, 2], shard['ids'], 'src', npages=shard.get('pages', 2))
        try:
            rs = src.run(None)
            if rs['error'] or rs['killed']:
                ctx.harness_errors.append(f'source run for input logits failed: {rs["error"]}')
                return
            world = World(shard['subset'], shard['ids'], 'w', npages=shard.get('pages', 2), model_free=True)
            shutil.rmtree(os.path.join(world.root, 'xml'))
            shutil.copytree(os.path.join(src.out, 'xml'), os.path.join(world.root, 'xml'))
            shutil.copytree(os.path.join(src.out, 'logits'), os.path.join(world.root, 'inlogits'))
            world.input_logits = os.path.join(world.root, 'inlogits')
        finally:
            src.close()
        ctx.tag('parser-without-ocr-fed-with-saved-logits')
    else:
        world = World(shard['subset'], shard['ids'], 'w', npages=shard.get('pages', 2))
        if shard.get('shared'):
            world.shared = True
            ctx.tag('several-output-kinds-in-one-directory')
        if shard.get('lmdb'):
            world.lmdb = True
            ctx.tag('line-crops-in-lmdb')
    try:
        r0 = world.run(None)
        ctx.executed()
        if r0['error'] or r0['killed']:
            ctx.violation('resume-exits-cleanly', f'{ID}/uninterrupted-run-fails', f'{r0["error"]}', dict(shard, hist=[]))
            return
        ref = canon(world.snapshot())
        # every requested output of every input page, under the page's own id
        nlines = [len(l) for l in PAGE_LINES[:len(world.ids)]]
        expected = set()
        for pid, nl in zip(world.ids, nlines):
            for k in shard['subset']:
                kind = KINDS[k]
                if kind == 'lines':
                    expected |= {os.path.join(world.dir_of('lines'), f'{pid}-r1-l{j + 1:03d}.jpg') for j in range(nl)}
                else:
                    expected.add(os.path.join(world.dir_of(kind), pid + {'xml': '.xml', 'render': '.jpg', 'logits': '.logits', 'alto': '.xml'}[kind]))
        have = {rel for rel, _ in ref}
        if have != expected:
            ctx.violation('every-output-present-and-equal', f'{ID}/uninterrupted-run-writes-wrong-files',
                          f'outputs {[KINDS[k] for k in shard["subset"]]}, page ids {world.ids}: missing {sorted(expected - have)}, unexpected {sorted(have - expected)}',
                          dict(shard, hist=[]))
            return
        if only_hist is not None:
            world.restore({})
            for k in only_hist:
                world.run(k)
            evaluate(world, only_hist, ref, ctx, dict(shard, hist=only_hist))
            return
        seen = {(): {}}                 # canon -> snapshot ; start: empty tree
        seen = {canon({}): ({}, [])}
        frontier = [canon({})]
        for level in range(depth + 1):
            nxt = []
            for key in frontier:
                snap, hist = seen[key]
                ctx.state((tuple(shard['subset']), shard['ids'], bool(shard.get('inlogits')), bool(shard.get('shared')), key) + (('lmdb',) if shard.get('lmdb') else ()))
                # the final resume from this state
                world.restore(snap)
                ctx.begin_case(dict(shard, hist=hist))
                evaluate(world, hist, ref, ctx, dict(shard, hist=hist))
                if hist:
                    ctx.nontrivial((tuple(shard['subset']), shard['ids'], key) + (('lmdb',) if shard.get('lmdb') else ()), 'interrupted-states')
                    partial = [p for p in world.ids if p not in complete_pages(key, ref, world.ids)
                               and any(page_of(rel, world.ids) == p for rel, _ in key)]
                    if partial:
                        ctx.tag('state-with-partially-written-page')
                    if shard.get('lmdb') and 0 < len(complete_pages(key, ref, world.ids)) < len(world.ids):
                        # some pages carry their completion record (with their crops committed) and others do not: the resume has to tell them apart
                        ctx.tag('lmdb-state-with-complete-and-incomplete-pages')
                ctx.outcome((len(key), tuple(complete_pages(key, ref, world.ids))))
                if level == depth:
                    continue
                # how many writes does an uninterrupted run from this state perform?
                world.restore(snap)
                w = len(world.run(None)['writes']) if True else 0
                ctx.executed()
                # "a kill after the last write": the tree this uninterrupted run leaves behind is a state too (nothing is left to do from it)
                s_done = world.snapshot()
                k_done = canon(s_done)
                if k_done not in seen:
                    seen[k_done] = (s_done, hist + [w])
                    nxt.append(k_done)
                for k in range(w):
                    world.restore(snap)
                    r = world.run(k)
                    ctx.executed()
                    if not r['killed']:
                        continue
                    if r.get('lmdb_kill'):
                        ctx.tag('kill-before-lmdb-transaction')
                    s2 = world.snapshot()
                    k2 = canon(s2)
                    if k2 not in seen:
                        seen[k2] = (s2, hist + [k])
                        nxt.append(k2)
            frontier = nxt
        if full and shard['ids'] == 0:
            ctx.sample({'outputs': [KINDS[k] for k in shard['subset']], 'ids': world.ids, 'distinct_states': len(seen),
                        'example_history': seen[list(seen)[-1]][1], 'files_of_a_complete_run': [rel for rel, _ in ref]})
    finally:
        world.close()


def explore_mp(shard, ctx):
    """kill an in-process run before its k-th write, then resume with the REAL command line tool and --process-count N"""
    import subprocess
    REPO = os.path.abspath(os.environ.get('VERIF_REPO', '/repo'))
    n, k = shard['mp'], shard['crash']
    case = dict(shard)
    ctx.begin_case(case)
    world = World(MP_SUBSET, shard['ids'], f'mp{n}-{k}', npages=3, model_free=True)
    K = f'{ID}/multi-process-resume'
    try:
        r0 = world.run(None)
        ctx.executed()
        if r0['error'] or r0['killed'] or len(r0['writes']) != MP_WRITES:
            ctx.harness_errors.append(f'model-free reference run: {r0["error"]}, {len(r0["writes"])} writes (expected {MP_WRITES})')
            return
        ref = canon(world.snapshot())
        world.restore({})
        if k < MP_WRITES:
            rk = world.run(k)
            ctx.executed()
            if not rk['killed']:
                ctx.harness_errors.append(f'kill point {k} not reached')
                return
        else:
            world.run(None)                  # nothing left to do for the resumed run
            ctx.executed()
        before = canon(world.snapshot())
        done_before = complete_pages(before, ref, world.ids)
        ctx.state(('mp', n, shard['ids'], before))
        env = dict(os.environ, PYTHONPATH=f'{REPO}:{REPO}/user_scripts')
        argv = world.argv()
        r = subprocess.run([sys.executable, os.path.join(REPO, 'user_scripts', 'parse_folder.py')] + argv[1:] + ['--process-count', str(n)],
                           env=env, stdout=subprocess.PIPE, stderr=subprocess.STDOUT, text=True, timeout=600)
        ctx.executed()
        left = len(world.ids) - len(done_before)
        desc = (f'outputs {[KINDS[i] for i in MP_SUBSET]}, page ids {world.ids}, first run killed before write {k} ({left} page(s) left), '
                f'resumed with --skip-processed --process-count {n}')
        if r.returncode != 0:
            ctx.violation('resume-exits-cleanly', f'{K}/resume-fails' + ('-when-nothing-left' if left == 0 else ''),
                          f'{desc}: exit status {r.returncode}: {r.stdout[-300:]}', case)
            return
        after = canon(world.snapshot())
        if after != ref:
            missing = sorted(set(dict(ref)) - set(dict(after)))
            differ = sorted(rel for rel in dict(ref) if rel in dict(after) and dict(after)[rel] != dict(ref)[rel])
            ctx.violation('every-output-present-and-equal', f'{K}/incomplete-after-resume',
                          f'{desc}: missing {missing}, different {differ}, unexpected {sorted(set(dict(after)) - set(dict(ref)))}', case)
            return
        said = [pid for pid in done_before if f'Processing {pid}\n' in r.stdout]
        if said:
            ctx.violation('complete-pages-not-processed-again', f'{K}/complete-page-reprocessed', f'{desc}: {said} processed again', case)
            return
        ctx.outcome(('mp', n, left))
        if 0 < left < n:
            ctx.nontrivial(('mp', n, k, shard['ids']), 'fewer-pages-left-than-worker-processes')
        ctx.tag('multi-process-resume')
    finally:
        world.close()


def run_shard(shard, ctx, tier):
    if 'mp' in shard:
        try:
            explore_mp(shard, ctx)
        except Exception as e:  # noqa
            import traceback
            ctx.harness_errors.append('explore_mp: ' + ''.join(traceback.format_exception(e))[-1500:])
        return
    try:
        explore(shard, ctx, tier)
    except Exception as e:  # noqa
        import traceback
        ctx.harness_errors.append('explore: ' + ''.join(traceback.format_exception(e))[-1500:])


def check_case(case, ctx):
    if 'mp' in case:
        return explore_mp(case, ctx)
    explore({'subset': case['subset'], 'ids': case['ids'], 'pages': case.get('pages', 2), 'inlogits': case.get('inlogits', 0), 'shared': case.get('shared', 0), 'lmdb': case.get('lmdb', 0)}, ctx, 'replay',
            only_hist=case['hist'])


def describe(tier):
    return {
        'rule': 'per configuration: BFS over distinct output-tree states reachable by <= crashes successive kills (a kill before each write of each '
                'run) + the final resume from every state; configurations = output subsets x 4 page-id sets. states = distinct (configuration, '
                'tree); transitions = runs of the real main(). Non-trivial: states reached by at least one kill.',
        'bounds': dict(BOUNDS[tier], subsets=len(subsets(tier)), id_sets=ID_SETS),
        'alphabets': {'outputs': KINDS, 'page_ids': ID_SETS, 'line_crop_sink': ['jpg files', 'LMDB environment (kill points = its write transactions)']},
        'assumptions': ['a kill leaves every earlier write complete and the interrupted one absent (no torn files)'],
        'min_nontrivial': 20, 'required_tags': ['several-output-kinds-in-one-directory', 'interrupted-states', 'state-with-partially-written-page', 'multi-process-resume', 'fewer-pages-left-than-worker-processes', 'parser-without-ocr-fed-with-saved-logits',
                                                 'line-crops-in-lmdb', 'kill-before-lmdb-transaction', 'lmdb-state-with-complete-and-incomplete-pages'],
    }
