"""C20 - Cached transformer decoding equals recomputation, per line and per batch.

Driver: the REAL TransformerOCR (real LineSelfAttentionEncoder, Decoder, DecoderLayer, CustomMultiheadAttention) with a small
random-weight convolutional front-end (the stock one downloads VGG weights), driven through the REAL
TransformerEngineLineOCR.transcribe_batch (engine object built with object.__new__, its attributes set as the constructor does).

Space (operation sequences on a live model): events = transcribe(batch_j, cached in {True, False}) over a batch alphabet
(3 lines x 64 px, other 3 x 64, 2 x 64, 1 x 96, 3 x 96, 3 x 64 sharing one line with the first); ALL histories up to depth D,
per model; models = fixed list over depth {1,2,3} x heads {1,2,4} x width {16,32} x seeds.
The same histories (smaller batch alphabet) with the encoder output of every batch written into ONE retained tensor per shape, refilled in place
and handed to the decoder (`one_memory`: the object is the same, its contents are those of the current batch).

Oracle per event and line: per-step scores equal (1e-4) to (a) the same line decoded alone, uncached, by a pristine deep copy of the
model and (b) the teacher-forced masked forward pass over the emitted symbols; transcripts equal (when every deciding arg-max
margin > 1e-3); termination within the length cap; no boundary / ignore symbol in a transcription.
"""
import copy
import itertools

import numpy as np

ID = 'C20'

MANIFEST = dict(
    technique='explicit-state exploration of all transcribe-batch histories (cached / uncached) on live real TransformerOCR models with random weights; differential oracles: line decoded alone by a pristine copy, and the teacher-forced masked forward pass',
    text='Bounded exhaustive: for each of 6 (quick) / 18 (thorough) random-weight models (depth 1-3, heads 1/2/4, width 16/32) every history of up to 2 (quick) / 3 (thorough) events over 12 events (6 batches x cached/uncached) is executed on ONE live model (caches survive between calls); for the last event of every history each line\'s per-step scores must equal those of the line decoded alone by a pristine copy and those of the teacher-forced forward pass over the emitted symbols (1e-4), transcripts must agree, decoding must stop within the length cap and transcriptions must be free of boundary / ignore symbols. Added sub-sweeps: histories of run_ocr calls (1088 px padding) on one engine against a fresh engine and single lines, batches in which 255 / 256 / 257 lines survive the first step, 640 px lines running to the 160-step cap on 2-3 layer decoders (recomputed == cached == teacher-forced), and the network from build_net on 1920 / 2112 px crops. Entry-point histories: every sequence of up to 2 (quick) / 3 (thorough) calls over run_ocr / transcribe_batch cached / uncached x 3 batches (incl. lines whose transcription is empty because they end at the first step) on one engine; the last call must equal the same call on a fresh engine and the uncached scores, and run_ocr\'s text must be exactly the decoded symbols. Wave 10: uninitialised cache memory is poisoned with NaN (and all comparisons are NaN-aware); the weights of another checkpoint loaded in place between two batches; binarised crops stored as 0 / 1 alone and next to ordinary crops. Wave 11: a fixed-shape pipeline - TransformerOCR.encode of the live network writes the encoder output of every batch into ONE retained tensor per shape (refilled in place) which the decoder is then given; every history of up to 2 (quick) / 3 (thorough) events over 3 (quick) / 4 (thorough) batches x cached / uncached, same per-line oracles (line alone on a pristine copy, teacher-forced pass); and in every history the results of the earlier calls, kept by the caller, must still be what they were when returned.',
    note='Random weights (no trained model), CPU, small dimensions; the convolutional front-end is a stub; beam-search use of cache_index_select is not covered.',
    ref='3/C20')

H = 16
NCHAR = 3
SB, IGN = NCHAR, NCHAR + 1
NCLS = NCHAR + 2
MODELS_Q = [(1, 2, 16, 0), (1, 4, 32, 1), (2, 2, 16, 1), (2, 4, 32, 0), (3, 2, 16, 1), (3, 4, 32, 0)]
MODELS_T = [(d, h, w, s) for d in (1, 2, 3) for (h, w) in ((1, 16), (2, 16), (4, 32)) for s in (0, 1)]
BATCHES = {           # name -> (width, [line content seeds])
    'A': (64, [1, 2, 3]), 'B': (64, [4, 5, 6]), 'C': (64, [7, 8]), 'D': (96, [9]), 'E': (96, [10, 11, 12]), 'F': (64, [1, 13, 14]),
    'G': (64, [1001, 2, 1002]), 'H': (64, [1003]),       # seeds >= 1000: binarised crops stored as 0 / 1 (legal uint8 images whose maximum is 1)
}
BNAMES = sorted(BATCHES)
EVENTS = [(b, c) for b in BNAMES for c in (True, False)]
WIDE_MODELS = [(1, 2, 16, 1, 'wide'), (2, 2, 16, 0, 'wide')]
RO_BATCHES = {'a': (256, [21, 22]), 'b': (512, [23, 24]), 'c': (256, [25, 26]), 'd': (512, [27]), 'e': (1088, [28, 29])}    # run_ocr input batches
RO_NAMES = sorted(RO_BATCHES)
BIG = [('n255', 255, 0), ('n256', 256, 0), ('n257', 257, 0), ('n256+3', 256, 3)]      # (name, lines that survive step 0, lines that end at step 0)
# one encoder-output buffer per shape, refilled in place for every batch (a fixed-shape pipeline): events = (batch, cached) over these batches
MEM_BATCHES = {'quick': ['A', 'B', 'E'], 'thorough': ['A', 'B', 'C', 'E']}
BOUNDS = {'quick': dict(depth=2, models=MODELS_Q, ro_depth=2, ro_models=WIDE_MODELS[:1], big_models=MODELS_Q[:2], mem_depth=2, mem_models=MODELS_Q,
                        mem_events=[(b, c) for b in MEM_BATCHES['quick'] for c in (True, False)]),
          'thorough': dict(depth=3, models=MODELS_T, ro_depth=3, ro_models=WIDE_MODELS, big_models=MODELS_Q, mem_depth=3, mem_models=MODELS_T,
                           mem_events=[(b, c) for b in MEM_BATCHES['thorough'] for c in (True, False)])}
BOUNDS['replay'] = BOUNDS['thorough']
TOL = 1e-4


def amax(x):
    """largest absolute value; a NaN anywhere counts as an infinite difference (scores that are not numbers equal nothing)"""
    x = np.abs(np.asarray(x, dtype=np.float64))
    return float('inf') if x.size and bool(np.isnan(x).any()) else (float(x.max()) if x.size else 0.0)
_M, _ALONE = {}, {}


def setup(tier):
    import torch  # noqa
    from pero_ocr.ocr_engine import transformer  # noqa


class StubFrontend:
    pass


def build_model(spec):
    import torch
    from pero_ocr.ocr_engine.transformer import TransformerOCR, LineSelfAttentionEncoder
    depth, heads, width, seed = spec[:4]
    wide = len(spec) > 4              # run_ocr pads every batch to 1088 px: 136 encoder positions, up to 272 decoding steps

    class Frontend(torch.nn.Module):
        def __init__(self):
            super().__init__()
            self.conv = torch.nn.Conv2d(3, width, kernel_size=(H, 8), stride=(H, 8))
            self.out_channels = width

        def forward(self, x):
            return torch.tanh(self.conv(x) * 3.0)[:, :, 0, :]        # [N, C, W/8]

    def fresh():
        torch.manual_seed(1000 + seed * 17 + depth * 3 + heads)
        enc = LineSelfAttentionEncoder(dropout=0.0, max_seq_len=160 if wide else 64, dim_model=width, dim_ff=2 * width, nb_heads=heads, nb_layers=1)
        net = TransformerOCR(Frontend(), enc, num_classes=NCLS, dropout=0.0, nb_layers=depth, dim_model=width, dim_ff=2 * width,
                             max_seq_len=300 if wide else 40, nb_heads=heads)
        with torch.no_grad():
            for p in net.parameters():
                if p.dim() > 1:
                    p.mul_(2.5)                 # larger weights: the scores depend visibly on input, step and fed-back symbols
            net.dec_out_proj.weight.mul_(1.5)
            net.dec_out_proj.bias.zero_()
            net.dec_out_proj.bias[IGN] = -3.0 if seed % 2 == 0 else 0.3      # odd seeds: the ignore symbol is emitted now and then
        net.eval()
        return net

    net = fresh()
    with torch.no_grad():
        # calibrate the end-of-line bias so that lines finish at various steps: decode every batch once with the end-of-line symbol
        # disabled and put its bias at the 30 % quantile of (best other score - end-of-line score) over all lines and steps
        net.dec_out_proj.bias[SB] = -1e4
        net.eval()
        import contextlib, io
        gaps = []
        eng = make_engine(net)
        for name in BNAMES:
            with contextlib.redirect_stdout(io.StringIO()):
                _, lg = eng.transcribe_batch(batch_images(name), is_cached=True)
            lg = lg.numpy().copy()
            sb = lg[:, :, SB] + 1e4
            lg[:, :, SB] = -np.inf
            gaps.append((lg.max(axis=-1) - sb).reshape(-1))
        bias = float(np.quantile(np.concatenate(gaps), 0.6 if wide else 0.3))
    # the calibration copy has decoded batches (its caches are filled): the model handed out is a second, never-used construction with the
    # same weights (same seed) and the calibrated bias - no knowledge of how the library names or stores its caches is needed
    net = fresh()
    with torch.no_grad():
        net.dec_out_proj.bias[SB] = bias
    return net


def pristine(spec):
    key = tuple(spec)
    if key not in _M:
        _M[key] = build_model(spec)
    return _M[key]


def make_engine(net):
    """a TransformerEngineLineOCR around `net`: the real constructor runs (engine definition from a generated JSON file) with only the network
    construction and the checkpoint loading replaced; if the constructor cannot be driven that way, the attributes it sets are set by hand"""
    import contextlib
    import io
    import json
    import os
    import unittest.mock
    import torch
    from pero_ocr.ocr_engine import transformer_ocr_engine as toe
    try:
        d = os.path.join(os.path.dirname(os.path.dirname(os.path.abspath(__file__))), '.cache', 'stubs')
        os.makedirs(d, exist_ok=True)
        js = os.path.join(d, f'c20-engine-{os.getpid()}.json')
        with open(js, 'w') as f:
            json.dump({'line_px_height': H, 'line_vertical_scale': 1.0, 'checkpoint': 'none.pt', 'characters': ['a', 'b', 'c'], 'net_name': 'stub'}, f)
        with unittest.mock.patch.object(toe.transformer, 'build_net', lambda **kw: net), \
                unittest.mock.patch.object(toe.torch, 'load', lambda *a, **kw: net.state_dict()), \
                contextlib.redirect_stdout(io.StringIO()):
            e = toe.TransformerEngineLineOCR(js, torch.device('cpu'), batch_size=4)
        os.remove(js)
        if e.net is not net or len(e.characters) != NCLS:
            raise RuntimeError('unexpected engine')
        return e
    except Exception:  # noqa
        e = object.__new__(toe.TransformerEngineLineOCR)
        e.device = torch.device('cpu')
        e.characters = ['a', 'b', 'c', '​', '']
        e.sentence_boundary_ind = len(e.characters) - 2
        e.ignore_ind = len(e.characters) - 1
        e.net = net
        return e


def line_image(seed, width):
    rng = np.random.RandomState(seed)
    if seed >= 1000:
        return rng.randint(0, 2, size=(3, H, width)).astype(np.uint8)
    return rng.randint(0, 256, size=(3, H, width)).astype(np.uint8)


def batch_images(name):
    w, seeds = BATCHES[name]
    return np.stack([line_image(s, w) for s in seeds]).astype(np.float32)


def shards(tier):
    out = []
    for mi in range(len(BOUNDS[tier]['models'])):
        for first in range(len(EVENTS)):
            out.append({'model': mi, 'first': first})
    for mi in range(len(BOUNDS[tier]['ro_models'])):
        for first in range(len(RO_NAMES)):
            out.append({'ro_model': mi, 'first': first})
    for mi in range(len(BOUNDS[tier]['big_models'])):
        for bi in range(len(BIG)):
            out.append({'big_model': mi, 'big': bi})
    for mi in range(len(BOUNDS[tier]['mem_models'])):
        for first in range(len(BOUNDS[tier]['mem_events'])):
            out.append({'mem_model': mi, 'first': first})
    for spec in LONGRUN_MODELS:
        out.append({'longrun': list(spec)})
    for mi in range(len(MIX_MODELS)):
        for first in range(len(MIX_EVENTS)):
            out.append({'mix_model': mi, 'first': first})
    for w in (1920, 2112):
        out.append({'buildnet': w})
    for mi in range(len(RELOAD_MODELS[tier if tier in RELOAD_MODELS else 'quick'])):
        out.append({'reload_model': mi})
    return out


# the weights of a network object are replaced in place (load_state_dict: another checkpoint of the same architecture) between two batches
RELOAD_MODELS = {'quick': [(1, 2, 16, 0), (2, 4, 32, 0)], 'thorough': [(1, 2, 16, 0), (2, 4, 32, 0), (3, 2, 16, 1), (2, 2, 16, 1)]}
RELOAD_MODELS['replay'] = RELOAD_MODELS['thorough']


LONGRUN_MODELS = [(2, 2, 16, 0, 'wide'), (3, 2, 16, 1, 'wide')]        # decoders with several layers, lines that run to the cap (160 steps)


def run_shard(shard, ctx, tier):
    from mc.core import guarded_check
    import sys
    mod = sys.modules[__name__]
    b = BOUNDS[tier]
    if 'ro_model' in shard:
        spec = b['ro_models'][shard['ro_model']]
        for L in range(1, b['ro_depth'] + 1):
            for rest in itertools.product(range(len(RO_NAMES)), repeat=L - 1):
                guarded_check(mod, {'model': list(spec), 'run_ocr': list(rest) + [shard['first']]}, ctx)
        return
    if 'mem_model' in shard:
        spec = b['mem_models'][shard['mem_model']]
        ev = [EVENTS.index(tuple(e)) for e in b['mem_events']]
        for L in range(1, b['mem_depth'] + 1):
            for rest in itertools.product(ev, repeat=L - 1):
                guarded_check(mod, {'model': list(spec), 'hist': [ev[shard['first']]] + list(rest), 'one_memory': True}, ctx)
        return
    if 'longrun' in shard:
        guarded_check(mod, {'longrun': shard['longrun']}, ctx)
        return
    if 'mix_model' in shard:
        spec = MIX_MODELS[shard['mix_model']]
        for L in range(1, b['ro_depth'] + 1):
            for rest in itertools.product(range(len(MIX_EVENTS)), repeat=L - 1):
                guarded_check(mod, {'model': list(spec), 'mixed': [shard['first']] + list(rest)}, ctx)
        return
    if 'buildnet' in shard:
        guarded_check(mod, {'buildnet': shard['buildnet']}, ctx)
        return
    if 'reload_model' in shard:
        spec = RELOAD_MODELS[tier if tier in RELOAD_MODELS else 'quick'][shard['reload_model']]
        for first in range(len(EVENTS)):
            if EVENTS[first][0] not in ('A', 'D'):
                continue
            for second in range(len(EVENTS)):
                if EVENTS[second][0] in ('A', 'B', 'D'):
                    guarded_check(mod, {'model': list(spec), 'reload': [first, second]}, ctx)
        return
    if 'big_model' in shard:
        guarded_check(mod, {'model': list(b['big_models'][shard['big_model']]), 'big': shard['big']}, ctx)
        return
    spec = b['models'][shard['model']]
    for L in range(1, b['depth'] + 1):
        for rest in itertools.product(range(len(EVENTS)), repeat=L - 1):
            guarded_check(mod, {'model': list(spec), 'hist': [shard['first']] + list(rest)}, ctx)


def alone(spec, seed, width):
    """the line decoded alone, uncached, by a pristine deep copy of the model -> (symbols, logits [T, C])"""
    import torch
    key = (tuple(spec), seed, width)
    if key not in _ALONE:
        eng = make_engine(copy.deepcopy(pristine(spec)))
        with torch.no_grad():
            outs, logits = eng.transcribe_batch(np.stack([line_image(seed, width)]).astype(np.float32), is_cached=False)
        _ALONE[key] = ([int(x) for x in outs[0]], logits[0].numpy().copy())
    return _ALONE[key]


def cache_state(net):
    import hashlib
    h = hashlib.blake2b(digest_size=8)
    import torch
    # every plain tensor-or-None attribute of every decoder sub-module (whatever the library calls its caches), by name and shape
    for mname, mod in sorted(net.trans_decoder.named_modules()):
        for k, v in sorted(vars(mod).items()):
            if k.startswith('_') or k == 'training':
                continue
            if v is None or isinstance(v, torch.Tensor):
                h.update(f'{mname}.{k}:{"-" if v is None else tuple(v.shape)}'.encode())
    return h.hexdigest()


def ro_images(name):
    w, seeds = RO_BATCHES[name]
    return np.stack([line_image(sd, w).transpose(1, 2, 0) for sd in seeds])          # [N, H, W, 3] uint8, as process_lines hands them over


def check_run_ocr(case, ctx):
    """histories of run_ocr calls (the entry point the line engine uses: pads every batch to 1088 px) on one engine object"""
    import contextlib
    import io
    import torch
    spec = case['model']
    hist = [RO_NAMES[i] for i in case['run_ocr']]
    eng = make_engine(copy.deepcopy(pristine(spec)))
    K = f'{ID}/run_ocr'
    with torch.no_grad(), contextlib.redirect_stdout(io.StringIO()), ctx.time_limit(120):
        for name in hist:
            imgs = ro_images(name)
            dec, logits = eng.run_ocr(imgs)
        fresh = make_engine(copy.deepcopy(pristine(spec)))
        dec0, logits0 = fresh.run_ocr(ro_images(hist[-1]))
        singles = [make_engine(copy.deepcopy(pristine(spec))).run_ocr(ro_images(hist[-1])[i:i + 1]) for i in range(len(dec0))]
    ctx.executed(len(hist) + 1 + len(dec0))
    ctx.state((tuple(spec), 'run_ocr', tuple(hist)))
    desc = f'model {tuple(spec)}, run_ocr on batches {[(n, RO_BATCHES[n]) for n in hist]} (width px, line seeds) in turn on one engine'
    n = min(logits.shape[1], logits0.shape[1])
    if list(dec) != list(dec0) or logits.shape != logits0.shape or amax(logits[:, :n] - logits0[:, :n]) > TOL:
        d = amax(logits[:, :n] - logits0[:, :n])
        ctx.violation('independent-of-earlier-batches', f'{K}/depends-on-earlier-batches',
                      f'{desc}: the last batch gives {list(dec)} (scores differ by {d:.4g}, {logits.shape[1]} steps); a fresh engine gives {list(dec0)} '
                      f'({logits0.shape[1]} steps)')
        return
    for i, (d1, l1) in enumerate(singles):
        m = min(l1.shape[1], logits0.shape[1])
        end = next((t for t, sy in enumerate(l1[0].argmax(axis=-1)) if sy == SB), l1.shape[1])
        m = min(m, end + 1)
        if amax(l1[0, :m] - logits0[i, :m]) > TOL:
            ctx.violation('independent-of-other-lines', f'{K}/line-depends-on-its-batch',
                          f'{desc}: line {i} of the last batch scores differently when given to run_ocr alone')
            return
    ctx.outcome(('run_ocr', tuple(len(x) for x in dec)))
    if len(hist) > 1 and RO_BATCHES[hist[-2]][0] > RO_BATCHES[hist[-1]][0] and len(RO_BATCHES[hist[-2]][1]) == len(RO_BATCHES[hist[-1]][1]):
        ctx.nontrivial((tuple(spec), tuple(hist)), 'run_ocr-narrower-batch-after-a-wider-one')
    ctx.tag('run_ocr-histories')


MIX_BATCHES = ['full', 'with-empty', 'only-empty']          # two lines with text / a line with text and one that ends at the first step / the latter alone
MIX_ENTRIES = ['run_ocr', 'transcribe_batch-cached', 'transcribe_batch']
MIX_EVENTS = [(e, b) for e in MIX_ENTRIES for b in MIX_BATCHES]
MIX_MODELS = [(2, 2, 16, 1, 'wide')]       # a model whose first symbol depends on the overall brightness of the line (found by enumeration, see mix_lines)


def mix_image(seed):
    """a 256 px line of one brightness level (seed * 37 mod 256) with +-20 noise"""
    rng = np.random.RandomState(seed)
    return np.clip((seed * 37) % 256 + rng.randint(-20, 21, size=(3, H, 256)), 0, 255).astype(np.uint8)

_MIX = {}


def mix_lines(spec):
    """256 px line seeds 300.. split by whether run_ocr on the line alone gives the empty transcription (boundary symbol at the first step)"""
    import contextlib
    import io
    import torch
    key = tuple(spec)
    if key not in _MIX:
        text, empty = [], []
        with torch.no_grad(), contextlib.redirect_stdout(io.StringIO()):
            for sd in range(300, 420):
                img = mix_image(sd)
                eng = make_engine(copy.deepcopy(pristine(spec)))
                outs, lg = eng.transcribe_batch(padded(np.stack([img])), is_cached=False)
                lg = lg[0].numpy()
                margin = np.sort(lg, axis=-1)[:, -1] - np.sort(lg, axis=-1)[:, -2]
                if margin.min() < 1e-2:
                    continue
                (empty if int(lg[0].argmax()) == SB else text).append(sd)
                if len(text) >= 3 and len(empty) >= 2:
                    break
        _MIX[key] = (text, empty)
    return _MIX[key]


def padded(nchw):
    """what run_ocr makes of a batch narrower than 1088 px before it transcribes it (zeros on both sides)"""
    out = np.zeros(nchw.shape[:3] + (1088,), dtype=np.float32)
    s = (1088 - nchw.shape[3]) // 2
    out[:, :, :, s:s + nchw.shape[3]] = nchw
    return out


def check_mixed(case, ctx):
    """histories that mix the engine's entry points (run_ocr / transcribe_batch cached / uncached) on one engine object, with batches in which a line
    ends at the very first step (the empty transcription)"""
    import contextlib
    import io
    import torch
    from mc.core import HarnessError
    spec = case['model']
    hist = [MIX_EVENTS[i] for i in case['mixed']]
    text, empty = mix_lines(spec)
    if len(text) < 3 or len(empty) < 2:
        raise HarnessError(f'no suitable lines: {text} {empty}')
    seeds = {'full': [text[0], text[1]], 'with-empty': [text[2], empty[0]], 'only-empty': [empty[1]]}
    K = f'{ID}/entry-points'

    def call(eng, entry, bname):
        nchw = np.stack([mix_image(sd) for sd in seeds[bname]])
        if entry == 'run_ocr':
            dec, lg = eng.run_ocr(nchw.transpose(0, 2, 3, 1).copy())
            return list(dec), np.asarray(lg)
        outs, lg = eng.transcribe_batch(padded(nchw), is_cached=(entry == 'transcribe_batch-cached'))
        return [[int(x) for x in o] for o in outs], lg.numpy()

    desc = f'model {tuple(spec)}, one engine, calls in turn {hist} (entry point, batch of 256 px lines; seeds {seeds})'
    with torch.no_grad(), contextlib.redirect_stdout(io.StringIO()), ctx.time_limit(120):
        eng = make_engine(copy.deepcopy(pristine(spec)))
        for entry, bname in hist:
            res, lg = call(eng, entry, bname)
        res0, lg0 = call(make_engine(copy.deepcopy(pristine(spec))), *hist[-1])
        syms, lgp = call(make_engine(copy.deepcopy(pristine(spec))), 'transcribe_batch', hist[-1][1])
    ctx.executed(len(hist) + 2)
    ctx.state((tuple(spec), 'mixed', tuple(hist)))
    n = min(lg.shape[1], lg0.shape[1])
    if res != res0 or lg.shape != lg0.shape or amax(lg[:, :n] - lg0[:, :n]) > TOL:
        ctx.violation('independent-of-earlier-batches', f'{K}/depends-on-earlier-calls',
                      f'{desc}: the last call gives {res} ({lg.shape[1]} steps); the same call on a fresh engine gives {res0} ({lg0.shape[1]} steps)')
        return
    entry, bname = hist[-1]
    n = min(lg.shape[1], lgp.shape[1])
    if amax(lg[:, :n] - lgp[:, :n]) > TOL or lg.shape[1] != lgp.shape[1]:
        ctx.violation('cached-equals-uncached', f'{K}/entry-point-changes-the-scores',
                      f'{desc}: the scores of the last call differ from plain uncached transcription of the same (padded) batch')
        return
    chars = ['a', 'b', 'c']
    want = [''.join(chars[c] for c in line) for line in syms] if entry == 'run_ocr' else syms
    if res != want:
        ctx.violation('free-of-boundary-symbols', f'{K}/run_ocr-text-differs-from-symbols',
                      f'{desc}: the last call returns {res!r}; the symbols decoded for the lines are {syms}')
        return
    for li, sd in enumerate(seeds[bname]):
        if (sd in empty) != (len(syms[li]) == 0):
            ctx.violation('independent-of-other-lines', f'{K}/line-depends-on-its-batch',
                          f'{desc}: line {li} (seed {sd}) is {"" if sd in empty else "not "}empty when decoded alone but gives {syms[li]} in this batch')
            return
    ctx.outcome(('mixed', entry, bname, tuple(len(x) for x in res)))
    if len(hist) > 1 and hist[-2][0] == 'run_ocr' and entry != 'run_ocr' and len(seeds[hist[-2][1]]) == len(seeds[bname]):
        ctx.nontrivial((tuple(spec), tuple(hist)), 'transcribe_batch-after-run_ocr-of-the-same-batch-size')
    if entry == 'run_ocr' and bname != 'full':
        ctx.nontrivial((tuple(spec), tuple(hist)), 'run_ocr-batch-with-an-empty-transcription')
    ctx.tag('entry-point-histories')


_POOL = {}


def big_pool(spec):
    """line seeds 100.. of width 32 px split by whether the line, decoded alone, ends at step 0"""
    key = tuple(spec)
    if key not in _POOL:
        later, first = [], []
        for sd in range(100, 760):
            syms, lg = alone(spec, sd, 32)
            (first if int(lg[0].argmax()) == SB else later).append(sd)
        _POOL[key] = (later, first)
    return _POOL[key]


def check_big(case, ctx):
    """batches whose number of unfinished lines sits at a byte boundary (255 / 256 / 257 lines survive the first step)"""
    import contextlib
    import io
    import torch
    spec = case['model']
    name, n_later, n_first = BIG[case['big']]
    later, first = big_pool(spec)
    if len(later) < n_later or len(first) < n_first:
        from mc.core import HarnessError
        raise HarnessError(f'line pool too small: {len(later)} / {len(first)}')
    seeds = later[:n_later // 2] + first[:n_first] + later[n_later // 2:n_later]
    imgs = np.stack([line_image(sd, 32) for sd in seeds]).astype(np.float32)
    eng = make_engine(copy.deepcopy(pristine(spec)))
    K = f'{ID}/big-batch'
    with torch.no_grad(), contextlib.redirect_stdout(io.StringIO()), ctx.time_limit(300):
        outs, logits = eng.transcribe_batch(imgs.copy(), is_cached=True)
    logits = logits.numpy()
    ctx.executed(1 + len(seeds))
    ctx.state((tuple(spec), 'big', name))
    desc = f'model {tuple(spec)}, one cached batch of {len(seeds)} lines x 32 px of which {n_first} end at the first step'
    if len(outs) != len(seeds):
        ctx.violation('per-line-results', f'{K}/result-count', f'{desc}: {len(outs)} transcriptions')
        return
    for li, sd in enumerate(seeds):
        a_syms, a_logits = alone(spec, sd, 32)
        syms = [int(x) for x in outs[li]]
        n = min(a_logits.shape[0], logits.shape[1])
        clear = bool(np.all(np.sort(a_logits, axis=-1)[:, -1] - np.sort(a_logits, axis=-1)[:, -2] > 1e-3))
        if logits.shape[1] < min(a_logits.shape[0], 32 // 4) or amax(a_logits[:n] - logits[li, :n]) > TOL or (clear and syms != a_syms):
            ctx.violation('equals-line-decoded-alone', f'{K}/differs-from-line-alone',
                          f'{desc}: line {li} -> {syms} in {logits.shape[1]} steps; decoded alone {a_syms} in {a_logits.shape[0]} steps')
            return
    ctx.outcome(('big', name, logits.shape[1]))
    ctx.tag('batch-at-a-byte-boundary')


def no_eos(net):
    import torch
    with torch.no_grad():
        net.dec_out_proj.bias[SB] = -1e4            # the line never ends by itself: decoding runs into the length cap
    return net


def teacher_forced(net, img_u8, logits_row):
    import torch
    am = logits_row.argmax(axis=-1)
    fed = [SB] + [int(x) for x in am[:len(am) - 1]]
    with torch.no_grad():
        ref = net(torch.from_numpy(img_u8.astype(np.float32)) / 255.0, torch.tensor([fed], dtype=torch.long))
    return ref.numpy()[:, 0, :]


def check_longrun(case, ctx):
    """a 640 px line that runs to the length cap (160 steps) on decoders with 2-3 layers: recomputing every step == cached == teacher-forced"""
    import contextlib
    import io
    import torch
    spec = tuple(case['longrun'])
    img = np.stack([line_image(77, 640)])
    K = f'{ID}/long-run'
    res = {}
    with torch.no_grad(), contextlib.redirect_stdout(io.StringIO()), ctx.time_limit(300):
        for cached in (False, True):
            eng = make_engine(no_eos(copy.deepcopy(pristine(spec))))
            outs, lg = eng.transcribe_batch(img.astype(np.float32), is_cached=cached)
            res[cached] = lg.numpy()[0]
        ref = teacher_forced(no_eos(copy.deepcopy(pristine(spec))), img, res[True])
    ctx.executed(3)
    ctx.state((spec, 'longrun'))
    desc = f'model {spec}, one 640 px line that never emits the boundary symbol ({res[True].shape[0]} steps cached, {res[False].shape[0]} recomputed)'
    cap = 640 // 4
    for name, lg in (('cached', res[True]), ('recomputed', res[False])):
        if not (cap <= lg.shape[0] <= cap + 2):
            ctx.violation('decoding-terminates', f'{K}/{name}/step-count', f'{desc}: expected the cap of {cap} steps')
            return
    n = min(res[True].shape[0], res[False].shape[0])
    # (the disabled boundary symbol scores about -1e4, where one float32 ulp is 1e-3: differences are measured relative to the magnitude)
    rel = lambda a, b: (np.abs(a - b) / np.maximum(1.0, np.maximum(np.abs(a), np.abs(b)))).max(axis=-1)
    d1 = rel(res[True][:n], res[False][:n])
    d2 = rel(res[True], ref[:res[True].shape[0]])
    # the emitted symbol is fed back: once a step is decided by a margin below 1e-3, round-off may legitimately send the two runs down
    # different paths - only the steps up to the first such step are compared
    def first_unclear(lg):
        srt = np.sort(lg, axis=-1)
        unclear = np.nonzero(srt[:, -1] - srt[:, -2] < 1e-3)[0]
        return int(unclear[0]) if len(unclear) else lg.shape[0]
    upto = min(first_unclear(res[True]), first_unclear(res[False])) + 1
    d1, d2 = d1[:upto], d2[:upto]
    if upto > 140:
        ctx.tag('long-run-compared-beyond-128-steps')
    if amax(d1) > TOL:
        ctx.violation('cached-equals-recomputed', f'{K}/cached-differs-from-recomputed',
                      f'{desc}: scores differ by {float(d1.max()):.4g}, first at step {int(np.argmax(d1 > TOL))}')
        return
    if amax(d2) > TOL:
        ctx.violation('equals-teacher-forced-forward', f'{K}/cached-differs-from-teacher-forced-forward',
                      f'{desc}: scores differ from TransformerOCR.forward by {float(d2.max()):.4g}, first at step {int(np.argmax(d2 > TOL))}')
        return
    ctx.outcome(('longrun', n))
    ctx.nontrivial((spec, 'longrun'), 'line-running-to-a-cap-beyond-128-steps')


class _StubConvEncoder:
    pass


def check_buildnet(case, ctx):
    """the network as the engine builds it (transformer.build_net, only the convolutional front-end replaced) on the widest crops: a line that
    never ends must be cut at the cap (width / 4 steps) and still equal the teacher-forced pass"""
    import contextlib
    import io
    import unittest.mock
    import torch
    from pero_ocr.ocr_engine import transformer

    class Frontend(torch.nn.Module):
        def __init__(self, in_height, in_channels, out_channels, conv_subsampling=(8, 8)):
            super().__init__()
            self.conv = torch.nn.Conv2d(in_channels, out_channels, kernel_size=(in_height, 8), stride=(in_height, 8))
            self.out_channels = out_channels

        def forward(self, x):
            return torch.tanh(self.conv(x) * 3.0)[:, :, 0, :]

    W = case['buildnet']
    cfg = {'dim_model': 16, 'dim_ff': 32, 'heads': 2, 'encoder_layers': 1, 'decoder_layers': 1, 'conv_subsampling': [8, 8]}
    K = f'{ID}/build_net'
    with contextlib.redirect_stdout(io.StringIO()), unittest.mock.patch.object(transformer, 'ConvolutionalEncoder', Frontend):
        torch.manual_seed(4242)
        net = transformer.build_net(cfg, H, 3, NCHAR)
    with torch.no_grad():
        for p_ in net.parameters():
            if p_.dim() > 1:
                p_.mul_(2.5)
        net.dec_out_proj.bias.zero_()
    net.eval()
    no_eos(net)
    net0 = copy.deepcopy(net)                 # a copy that never decodes: used for the teacher-forced pass
    img = np.stack([line_image(78, W)])
    with torch.no_grad(), contextlib.redirect_stdout(io.StringIO()), ctx.time_limit(600):
        eng = make_engine(net)
        outs, lg = eng.transcribe_batch(img.astype(np.float32), is_cached=True)
        lg = lg.numpy()[0]
        ref = teacher_forced(net0, img, lg)
    ctx.executed(2)
    ctx.state(('buildnet', W))
    cap = W // 4
    desc = f'network from build_net({cfg}), one {W} px line that never emits the boundary symbol: {lg.shape[0]} steps'
    if not (cap <= lg.shape[0] <= cap + 2):
        ctx.violation('decoding-terminates', f'{K}/step-count', f'{desc}, expected the cap of {cap}')
        return
    d = (np.abs(lg - ref[:lg.shape[0]]) / np.maximum(1.0, np.abs(lg))).max(axis=-1)
    if amax(d) > 10 * TOL:
        ctx.violation('equals-teacher-forced-forward', f'{K}/cached-differs-from-teacher-forced-forward',
                      f'{desc}: scores differ from TransformerOCR.forward by {float(d.max()):.4g}, first at step {int(np.argmax(d > 10 * TOL))}')
        return
    ctx.outcome(('buildnet', W, lg.shape[0]))
    ctx.tag('network-from-build_net-on-the-widest-crops')


def check_reload(case, ctx):
    """one network object decodes a batch, gets the weights of another checkpoint (same architecture) loaded in place, and decodes again: the second
    decoding is that of the network as it is now - equal to a pristine network with those weights decoding each line alone, uncached"""
    import torch
    spec = tuple(case['model'])
    spec2 = (spec[0], spec[1], spec[2], 1 - spec[3])
    (n1, c1), (n2, c2) = EVENTS[case['reload'][0]], EVENTS[case['reload'][1]]
    net = copy.deepcopy(pristine(spec))
    eng = make_engine(net)
    with torch.no_grad(), ctx.time_limit(60):
        eng.transcribe_batch(batch_images(n1).copy(), is_cached=c1)
        net.load_state_dict(copy.deepcopy(pristine(spec2).state_dict()))
        outs, logits = eng.transcribe_batch(batch_images(n2).copy(), is_cached=c2)
    ctx.executed(2)
    logits = logits.numpy()
    ctx.state((spec, 'reload', cache_state(net), n1, c1, n2, c2))
    w, seeds = BATCHES[n2]
    desc = (f'model {spec}: batch {n1} decoded ({"cached" if c1 else "uncached"}), weights of checkpoint {spec2} loaded in place (load_state_dict), '
            f'batch {n2} decoded ({"cached" if c2 else "uncached"})')
    for li, seed in enumerate(seeds):
        a_syms, a_logits = alone(spec2, seed, w)
        n = min(a_logits.shape[0], logits.shape[1])
        d = amax(a_logits[:n] - logits[li, :n])
        if d > TOL:
            ctx.violation('cached-equals-recomputed', f'{ID}/weights-reloaded-in-place/{"cached" if c2 else "uncached"}/differs-from-a-pristine-network-with-these-weights',
                          f'{desc}: line {li} scores differ by {d:.4g} from a pristine network with the new weights decoding the line alone, uncached')
            return
    ctx.outcome(('reload', n2, logits.shape[1]))
    ctx.tag('weights-reloaded-in-place-between-batches')


def one_memory_tensor(net):
    """a caller with a fixed-shape pipeline: the encoder output of every batch is written into ONE retained tensor per shape (refilled in place),
    and that tensor is what the decoder is given - TransformerOCR.encode of this network object hands out the retained tensor. Returns a counter
    dict: 'refills' = number of times a tensor that had been decoded before was refilled and handed out again"""
    inner = net.encode
    bufs, stat = {}, {'refills': 0, 'last_refilled': False}

    def encode(X):
        out = inner(X)
        key = (tuple(out.shape), out.dtype)
        stat['last_refilled'] = key in bufs
        if key in bufs:
            bufs[key].copy_(out)
            stat['refills'] += 1
        else:
            bufs[key] = out.clone()
        return bufs[key]
    net.encode = encode
    return stat


def check_case(case, ctx):
    import torch
    if 'reload' in case:
        return check_reload(case, ctx)
    if 'longrun' in case:
        return check_longrun(case, ctx)
    if 'buildnet' in case:
        return check_buildnet(case, ctx)
    if 'run_ocr' in case:
        return check_run_ocr(case, ctx)
    if 'mixed' in case:
        return check_mixed(case, ctx)
    if 'big' in case:
        return check_big(case, ctx)
    spec = case['model']
    hist = [EVENTS[i] for i in case['hist']]
    net = copy.deepcopy(pristine(spec))
    one_mem = bool(case.get('one_memory'))
    mem = one_memory_tensor(net) if one_mem else None
    eng = make_engine(net)
    K = f'{ID}/one-encoder-output-tensor-refilled-in-place/depth{spec[0]}' if one_mem else f'{ID}/depth{spec[0]}'
    res = None
    kept = []                      # (event, the result object the caller was given, a copy of it taken at once)
    with torch.no_grad():
        for name, cached in hist:
            imgs = batch_images(name)
            steps_cap = imgs.shape[-1] // 4 + 2
            with ctx.time_limit(20):
                res = eng.transcribe_batch(imgs.copy(), is_cached=cached)
            kept.append(((name, cached), res, ([o.clone() for o in res[0]], res[1].clone())))
    ctx.executed(len(hist))
    ctx.state((tuple(spec), cache_state(net), tuple(hist[-1])) + (('one-memory', mem['last_refilled']) if one_mem else ()))
    name, cached = hist[-1]
    outs, logits = res
    logits = logits.numpy()
    w, seeds = BATCHES[name]
    desc = f'model (depth,heads,width,seed)={tuple(spec)}, history {hist}, last batch {name} ({len(seeds)} lines x {w} px)'
    if one_mem:
        desc += ' [the encoder output of every batch is written into one retained tensor per shape, which the decoder is given]'
    # the caller kept the results of the earlier calls: they must still be what they were when they were returned
    for ev, (o_now, l_now), (o_then, l_then) in kept[:-1]:
        same = len(o_now) == len(o_then) and all(a.shape == b_.shape and bool((a == b_).all()) for a, b_ in zip(o_now, o_then))
        if not same or l_now.shape != l_then.shape or not np.array_equal(l_now.numpy(), l_then.numpy(), equal_nan=True):     # (a NaN that was a NaN is unchanged)
            ctx.violation('independent-of-earlier-batches', f'{K}/result-of-an-earlier-call-changed-by-a-later-call',
                          f'{desc}: the transcriptions / scores returned for {ev} are no longer what they were when that call returned')
            return
    if len(outs) != len(seeds) or logits.shape[0] != len(seeds):
        ctx.violation('per-line-results', f'{K}/result-count', f'{desc}: {len(outs)} transcriptions / {logits.shape[0]} score rows for {len(seeds)} lines')
        return
    cap = w // 4
    if logits.shape[1] > cap + 2:
        ctx.violation('decoding-terminates', f'{K}/length-cap-exceeded', f'{desc}: {logits.shape[1]} steps, cap {cap}')
        return
    finish = []
    for li, seed in enumerate(seeds):
        sub = f'{desc}, line {li}'
        syms = [int(x) for x in outs[li]]
        if SB in syms or IGN in syms:
            ctx.violation('no-boundary-or-ignore-symbols', f'{K}/boundary-or-ignore-symbol-in-transcription', f'{sub}: transcription {syms}')
            return
        # emitted symbol sequence according to the scores of this run
        am = logits[li].argmax(axis=-1)
        srt = np.sort(logits[li], axis=-1)
        margin = srt[:, -1] - srt[:, -2]
        end = next((t for t, s in enumerate(am) if s == SB), len(am))
        finish.append(end)
        expect = [int(s) for s in am[:end] if s != IGN]
        clear = bool(np.all(margin[:min(end + 1, len(am))] > 1e-3))
        if clear and syms != expect[:len(syms)] + ([] if len(syms) <= len(expect) else [None]):
            ctx.violation('transcript-follows-scores', f'{K}/transcription-differs-from-argmax-of-scores', f'{sub}: {syms} vs arg-max path {expect}')
            return
        # (a) the same line alone, uncached, pristine model
        a_syms, a_logits = alone(spec, seed, w)
        n = min(a_logits.shape[0], logits.shape[1])
        d = amax(a_logits[:n] - logits[li, :n])
        if d > TOL:
            t_bad = int(np.argmax(np.abs(a_logits[:n] - logits[li, :n]).max(axis=-1)))
            how = 'cached' if cached else 'uncached'
            kind = 'after-history' if len(hist) > 1 else 'first-call'
            ctx.violation('equals-line-decoded-alone', f'{K}/{how}/differs-from-line-alone/{kind}',
                          f'{sub}: scores differ from the line decoded alone by a pristine copy by {d:.4g} (first at step {t_bad})')
            return
        if clear and np.all(np.sort(a_logits, axis=-1)[:, -1] - np.sort(a_logits, axis=-1)[:, -2] > 1e-3) and syms != a_syms:
            ctx.violation('equals-line-decoded-alone', f'{K}/transcription-differs-from-line-alone', f'{sub}: {syms} vs alone {a_syms}')
            return
        # (b) teacher-forced masked forward pass over the emitted symbols
        T = logits.shape[1]
        fed = [SB] + [int(s) for s in am[:T - 1]]
        labels = torch.tensor([fed], dtype=torch.long)
        img = torch.from_numpy(np.stack([line_image(seed, w)]).astype(np.float32)) / 255.0
        with torch.no_grad():
            ref = copy.deepcopy(pristine(spec))(img, labels)         # [T, 1, C]
        ctx.executed()
        ref = ref.numpy()[:, 0, :]
        d = amax(ref - logits[li])
        if d > TOL:
            how = 'cached' if cached else 'uncached'
            ctx.violation('equals-teacher-forced-forward', f'{K}/{how}/differs-from-teacher-forced-forward',
                          f'{sub}: step scores differ from TransformerOCR.forward over the emitted symbols by {d:.4g}')
            return
    ctx.outcome((name, tuple(finish)))
    if len(set(finish)) > 1:
        ctx.nontrivial((tuple(spec), tuple(case['hist'])) + (('one-memory',) if one_mem else ()), 'lines-finish-at-different-steps')
    if any(f == 0 for f in finish) and any(f > 0 for f in finish):
        ctx.tag('line-finished-at-first-step-while-others-continue')
    if any(f >= logits.shape[1] for f in finish):
        ctx.tag('line-hit-the-length-cap')
    if any(IGN in [int(x) for x in logits[li].argmax(axis=-1)[:finish[li]]] for li in range(len(seeds))):
        ctx.tag('ignore-symbol-emitted-mid-line')
    if any(sd >= 1000 for sd in seeds):
        ctx.tag('binarised-crop-in-the-batch')
    if one_mem:
        ctx.tag('encoder-output-tensor-decoded-first-time' if not mem['last_refilled'] else 'encoder-output-tensor-refilled-in-place-and-decoded-again')
        if mem['last_refilled'] and cached:
            ctx.tag('encoder-output-tensor-refilled-in-place-and-decoded-again-cached')
        if mem['refills'] and not mem['last_refilled']:
            ctx.tag('encoder-output-tensor-of-another-shape-after-a-refilled-one')
    if len(hist) > 1:
        ctx.tag('earlier-result-looked-at-again-after-a-later-call')
        pn, pc = hist[-2]
        if len(BATCHES[pn][1]) == len(seeds):
            ctx.tag('previous-batch-of-same-size' + ('-and-width' if BATCHES[pn][0] == w else '-other-width'))
        if pc != cached:
            ctx.tag('cached-and-uncached-calls-mixed')
    if len(hist) == 1 and name == 'A' and cached and tuple(spec) == MODELS_Q[3]:
        ctx.sample({'model': spec, 'batch': name, 'finish_steps': finish, 'transcriptions': [[int(x) for x in o] for o in outs]})


def describe(tier):
    b = BOUNDS[tier]
    return {
        'rule': 'per model: all histories of up to depth events (6 batches x cached/uncached = 12 events) on one live model, oracle on the last event. '
                'state = (model, shapes of the caches left in every decoder layer, last event). Non-trivial: histories whose last batch has lines '
                'finishing at different steps; counters for lines finishing at step 0, hitting the cap, and stale-cache situations.',
        'bounds': {'depth': b['depth'], 'models': [list(m) for m in b['models']]},
        'alphabets': {'batches(width, line seeds)': BATCHES, 'events': len(EVENTS),
                      'one-retained-encoder-output-tensor histories': {'events': [list(e) for e in b['mem_events']], 'depth': b['mem_depth'], 'models': len(b['mem_models'])}},
        'assumptions': ['scores compared within 1e-4 (float32)', 'transcripts compared only when every deciding arg-max margin exceeds 1e-3'],
        'min_nontrivial': 50,
        'required_tags': ['encoder-output-tensor-refilled-in-place-and-decoded-again', 'encoder-output-tensor-refilled-in-place-and-decoded-again-cached',
                          'encoder-output-tensor-decoded-first-time', 'earlier-result-looked-at-again-after-a-later-call',
                          'weights-reloaded-in-place-between-batches', 'binarised-crop-in-the-batch', 'entry-point-histories', 'transcribe_batch-after-run_ocr-of-the-same-batch-size', 'run_ocr-batch-with-an-empty-transcription', 'long-run-compared-beyond-128-steps', 'network-from-build_net-on-the-widest-crops', 'run_ocr-histories', 'run_ocr-narrower-batch-after-a-wider-one', 'batch-at-a-byte-boundary', 'lines-finish-at-different-steps', 'line-hit-the-length-cap', 'previous-batch-of-same-size-and-width',
                          'previous-batch-of-same-size-other-width', 'cached-and-uncached-calls-mixed',
                          'line-finished-at-first-step-while-others-continue', 'ignore-symbol-emitted-mid-line'],
    }
