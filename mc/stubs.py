"""Stub networks and engine definitions, generated from source (nothing is fetched).

PixelLogits: a TorchScript 'OCR network' whose output is a fixed, local function of the input pixels:
    logits[n, c, t] = mean over the `pool` pixel columns [t*pool, (t+1)*pool) of channel 0, image row c, times 255
so any integer score tensor (values 0..255) can be fed through the REAL engine by painting it into an image, a frame
depends only on its own `pool` columns, and zero padding decodes to all-equal logits ... unless `bias_blank` adds a
constant to the blank class so that padding decodes to blank.
"""
import json
import os

import torch
from torch import nn

# freshly loaded TorchScript modules otherwise spend ~50 ms per engine in the profiling graph executor; the stubs are tiny
# and every check loads many of them.  This changes no numerical result (same kernels, no fusion).
torch._C._set_graph_executor_optimize(False)

VERIF = os.path.dirname(os.path.dirname(os.path.abspath(__file__)))
STUB_DIR = os.path.join(VERIF, '.cache', 'stubs')


class PixelLogits(nn.Module):
    def __init__(self, n_classes: int, pool: int, bias_blank: float, ctx: int, offset: float = 0.0):
        super().__init__()
        self.n_classes = n_classes
        self.pool = pool
        self.bias_blank = bias_blank
        self.ctx = ctx      # half-width (in frames) of an additional horizontal smoothing; 0 = strictly local
        self.offset = offset  # added to every class, so that no logit is exactly 0

    def forward(self, x):
        # x: [N, 3, H, W] in 0..1
        y = x[:, 0, :self.n_classes, :] * 255.0                    # [N, C, W]
        if self.pool > 1:
            y = torch.nn.functional.avg_pool1d(y, self.pool)       # [N, C, W // pool]
        if self.ctx > 0:
            k = 2 * self.ctx + 1
            y = torch.nn.functional.avg_pool1d(y, k, stride=1, padding=self.ctx, count_include_pad=True) * float(k)
        bias = torch.zeros(self.n_classes, dtype=y.dtype) + self.offset
        bias[self.n_classes - 1] = self.bias_blank + self.offset
        return y + bias[None, :, None]


class PixelLogitsMasked(nn.Module):
    """PixelLogits whose class `masked` is switched off the way some networks do it: its logit is -inf in every frame"""

    def __init__(self, n_classes: int, pool: int, bias_blank: float, offset: float, masked: int):
        super().__init__()
        self.base = PixelLogits(n_classes, pool, bias_blank, 0, offset)
        self.masked = masked

    def forward(self, x):
        y = self.base(x)
        y[:, self.masked, :] = float('-inf')
        return y


def make_masked_engine(n_classes, characters, masked, line_px_height=8, pool=4, bias_blank=3.0, offset=0.25, batch_size=8):
    from pero_ocr.ocr_engine.pytorch_ocr_engine import PytorchEngineLineOCR
    os.makedirs(STUB_DIR, exist_ok=True)
    p = os.path.join(STUB_DIR, f'pixlogits_masked_c{n_classes}_p{pool}_b{bias_blank}_o{offset}_m{masked}.pt')
    if not os.path.exists(p + '.cpu'):
        m = torch.jit.script(PixelLogitsMasked(n_classes, pool, float(bias_blank), float(offset), masked))
        tmp = p + f'.cpu.{os.getpid()}.tmp'
        m.save(tmp)
        os.replace(tmp, p + '.cpu')
    js = engine_json(f'engine_masked_c{n_classes}_m{masked}_h{line_px_height}', p, characters, line_px_height)
    return PytorchEngineLineOCR(js, torch.device('cpu'), batch_size=batch_size)


class PixelLogitsEmbed(nn.Module):
    """PixelLogits with a second input (embedding ids, as engines with `embed_id` pass): id k favours class k by a constant"""

    def __init__(self, n_classes: int, pool: int, bias_blank: float, offset: float):
        super().__init__()
        self.base = PixelLogits(n_classes, pool, bias_blank, 0, offset)
        self.n_classes = n_classes

    def forward(self, x, ids):
        y = self.base(x)
        onehot = torch.nn.functional.one_hot(ids, self.n_classes).to(y.dtype)
        return y + 25.0 * onehot[:, :, None]


def make_embed_engine(n_classes, characters, embed_id, line_px_height=8, pool=4, bias_blank=3.0, offset=0.25, batch_size=8):
    from pero_ocr.ocr_engine.pytorch_ocr_engine import PytorchEngineLineOCR
    os.makedirs(STUB_DIR, exist_ok=True)
    p = os.path.join(STUB_DIR, f'pixlogits_embed_c{n_classes}_p{pool}_b{bias_blank}_o{offset}.pt')
    if not os.path.exists(p + '.cpu'):
        m = torch.jit.script(PixelLogitsEmbed(n_classes, pool, float(bias_blank), float(offset)))
        tmp = p + f'.cpu.{os.getpid()}.tmp'
        m.save(tmp)
        os.replace(tmp, p + '.cpu')
    js = engine_json(f'engine_embed_c{n_classes}_e{embed_id}_h{line_px_height}', p, characters, line_px_height,
                     extra={'embed_num': n_classes - 1, 'embed_id': embed_id})
    return PytorchEngineLineOCR(js, torch.device('cpu'), batch_size=batch_size)


def stub_path(n_classes, pool, bias_blank, ctx, offset=0.0):
    return os.path.join(STUB_DIR, f'pixlogits_c{n_classes}_p{pool}_b{bias_blank}_x{ctx}_o{offset}.pt')


def ensure_pixel_stub(n_classes, pool=1, bias_blank=0.0, ctx=0, offset=0.0):
    """writes <path>.cpu (the engine appends '.cpu' on CPU devices); returns the path WITHOUT the suffix"""
    os.makedirs(STUB_DIR, exist_ok=True)
    p = stub_path(n_classes, pool, bias_blank, ctx, offset)
    if not os.path.exists(p + '.cpu'):
        m = torch.jit.script(PixelLogits(n_classes, pool, float(bias_blank), ctx, float(offset)))
        tmp = p + f'.cpu.{os.getpid()}.tmp'
        m.save(tmp)
        os.replace(tmp, p + '.cpu')
    return p


def engine_json(name, checkpoint, characters, line_px_height, extra=None):
    os.makedirs(STUB_DIR, exist_ok=True)
    cfg = {'line_px_height': line_px_height, 'line_vertical_scale': 1.0, 'checkpoint': checkpoint,
           'characters': list(characters), 'net_name': 'stub'}
    cfg.update(extra or {})
    p = os.path.join(STUB_DIR, name + '.json')
    tmp = p + f'.{os.getpid()}.tmp'
    with open(tmp, 'w', encoding='utf8') as f:
        json.dump(cfg, f)
    os.replace(tmp, p)
    return p


def ctc_engine_json(n_classes, characters, line_px_height=8, pool=1, bias_blank=0.0, ctx=0, offset=0.0):
    ck = ensure_pixel_stub(n_classes, pool, bias_blank, ctx, offset)
    return engine_json(f'engine_c{n_classes}_p{pool}_b{bias_blank}_x{ctx}_o{offset}_h{line_px_height}', ck, characters, line_px_height)


def make_ctc_engine(n_classes, characters, line_px_height=8, pool=1, bias_blank=0.0, ctx=0, batch_size=8, offset=0.0):
    """A REAL PytorchEngineLineOCR (real constructor, real TorchScript loading) around the pixel stub."""
    from pero_ocr.ocr_engine.pytorch_ocr_engine import PytorchEngineLineOCR
    js = ctc_engine_json(n_classes, characters, line_px_height, pool, bias_blank, ctx, offset)
    return PytorchEngineLineOCR(js, torch.device('cpu'), batch_size=batch_size)


# ------------------------------------------------------------------ toy language models (C03, C08)
class _ToyModel(nn.Module):
    """state = exact hash of the whole prefix: h' = (mult*h + x + 1) mod 9973, float64 (exact for these sizes)"""

    def __init__(self, mult: float):
        super().__init__()
        self.mult = mult
        self._p = nn.Parameter(torch.zeros(1, dtype=torch.float64), requires_grad=False)

    def forward(self, xs, hs):
        # xs: [B, L] long ; hs: [1, B, 1]
        h = hs
        for i in range(xs.shape[1]):
            x = xs[:, i].to(torch.float64).reshape(1, -1, 1)
            h = torch.remainder(h * self.mult + x + 1.0, 9973.0)
        return None, h

    def init_hidden(self, bsz):
        return torch.full((1, bsz, 1), 3.0, dtype=torch.float64)


class _ToyTupleModel(nn.Module):
    """an LSTM-like model: the state is a PAIR of tensors (h, c), both exact hashes of the whole prefix; the next h depends on c as well"""

    def __init__(self):
        super().__init__()
        self._p = nn.Parameter(torch.zeros(1, dtype=torch.float64), requires_grad=False)

    def forward(self, xs, hs):
        h, c = hs
        for i in range(xs.shape[1]):
            x = xs[:, i].to(torch.float64).reshape(1, -1, 1)
            h, c = torch.remainder(h * 5.0 + c * 3.0 + x + 1.0, 9973.0), torch.remainder(c * 7.0 + x * 2.0 + 5.0, 9941.0)
        return None, (h, c)

    def init_hidden(self, bsz):
        return (torch.full((1, bsz, 1), 3.0, dtype=torch.float64), torch.full((1, bsz, 1), 11.0, dtype=torch.float64))


class _ToyDecoder(nn.Module):
    def __init__(self, kind: int, vocab_size: int):
        super().__init__()
        self.kind = kind
        self.vocab_size = vocab_size
        self.drop = nn.Dropout(0.5)       # kind 3: a model with dropout (random in training mode, the identity in evaluation mode)

    def forward(self, h):
        # h: [B, 1] (or [1, B, 1]) -> scores [B, V], a fixed pseudo-random function of the state
        v = torch.arange(self.vocab_size, dtype=torch.float64)
        if self.kind == 3:
            return self.drop(-(torch.remainder(h * 31.0 + v * 17.0 + 7.0, 13.0) / 4.0 + 0.1))
        if self.kind == 0:
            return -(torch.remainder(h * 31.0 + v * 17.0 + 7.0, 13.0) / 4.0 + 0.1)
        if self.kind == 1:
            return -(torch.remainder(h * 11.0 + v * 5.0 + 3.0, 7.0) / 2.0 + 0.25)
        return torch.zeros_like(h) - 1.0 - 0.0 * v      # constant LM: every continuation equally likely (ties)


class ToyLM(nn.Module):
    def __init__(self, kind, letters):
        super().__init__()
        self.vocab = {'</s>': 0}
        for i, c in enumerate(letters):
            self.vocab[c] = i + 1
        self._unused_prefix_len = 1
        self.model = _ToyTupleModel() if kind == 4 else _ToyModel([5.0, 7.0, 5.0, 5.0][kind])
        self.decoder = _ToyDecoder(0 if kind == 4 else kind, len(letters) + 1)


def make_lm_wrapper(kind, letters):
    from pero_ocr.decoding.lm_wrapper import LMWrapper
    return LMWrapper(ToyLM(kind, letters), list(letters), torch.device('cpu'))
