"""A complete stub OCR pipeline (used by C08 and C17): page images whose pixels encode class scores, PAGE XML inputs,
a config file for the REAL PageParser / parse_folder with line cropper + stub OCR engine (+ decoder)."""
import os

import numpy as np

from mc import stubs

H_LINE = 8            # LINE_HEIGHT of the cropper == line_px_height of the engine
HEIGHTS = [5, 2]      # ascender / descender: 5 + 2 + baseline row = 8 rows, vertical sampling step exactly 1 px
CHARS = ['a', 'b', 'c']
NCLS = 4
BLOCK = 7             # source pixels per painted symbol block (-> 8 crop columns -> 2 network frames)

LEVELS = {            # per-class scores of a block; classes a, b, c (blank gets its bias from the stub)
    'a': (60, 10, 12), 'b': (12, 60, 10), 'c': (10, 12, 60),
    'ab': (30, 29, 8),    # a barely ahead of b: beam / LM can change the outcome
    'ba': (29, 30, 8),
    'bc': (8, 30, 29),
    '_': (0, 0, 0),       # nothing painted: blank
}


def paint_line(img, y, x0, symbols):
    x = x0
    for s in symbols:
        lv = LEVELS[s]
        for c in range(3):
            img[y - HEIGHTS[0] + c, x:x + BLOCK, :] = lv[c]
        x += BLOCK
    return x


def make_page(lines, size=(60, 260)):
    """lines: list of (y, x0, [symbols]) -> (BGR image uint8, PageLayout with one region)"""
    from pero_ocr.core.layout import PageLayout, RegionLayout, TextLine
    img = np.zeros((size[0], size[1], 3), dtype=np.uint8)
    lay = PageLayout(id='page', page_size=size)
    reg = RegionLayout('r1', np.asarray([[0, 0], [size[1], 0], [size[1], size[0]], [0, size[0]]]))
    for k, (y, x0, symbols) in enumerate(lines):
        x1 = paint_line(img, y, x0, symbols)
        reg.lines.append(TextLine(id=f'r1-l{k + 1:03d}', index=k, baseline=np.asarray([[x0, y], [x1, y]]),
                                  polygon=np.asarray([[x0, y - HEIGHTS[0]], [x1, y - HEIGHTS[0]], [x1, y + HEIGHTS[1]], [x0, y + HEIGHTS[1]]]),
                                  heights=list(HEIGHTS)))
    lay.regions.append(reg)
    return img, lay


def engine_json(ctx=0):
    return stubs.ctc_engine_json(NCLS, CHARS, line_px_height=H_LINE, pool=4, bias_blank=3.0, ctx=ctx, offset=0.25)


def config_text(decoder='GREEDY', beam=4, threshold=None, run_decoder=True, extra_parse_folder=None):
    js = engine_json()
    t = ['[PAGE_PARSER]', 'RUN_LAYOUT_PARSER = no', 'RUN_LINE_CROPPER = yes', 'RUN_OCR = yes',
         f'RUN_DECODER = {"yes" if run_decoder else "no"}', '',
         '[LINE_CROPPER]', 'INTERP = 1', 'LINE_SCALE = 1', f'LINE_HEIGHT = {H_LINE}', '',
         '[OCR]', f'OCR_JSON = {js}', 'USE_CPU = yes', '']
    if run_decoder:
        t += ['[DECODER]', f'TYPE = {decoder}', 'USE_CPU = yes', 'CARRY_H_OVER = no']
        if decoder != 'GREEDY':
            t += [f'BEAM_SIZE = {beam}', 'LM_SCALE = 1.0']
        if threshold is not None:
            t += [f'CONFIDENCE_THRESHOLD = {threshold}']
        t += ['']
    if extra_parse_folder:
        t += ['[PARSE_FOLDER]'] + [f'{k} = {v}' for k, v in extra_parse_folder.items()] + ['']
    return '\n'.join(t)


def make_parser(decoder='GREEDY', beam=4, threshold=None, run_decoder=True):
    """REAL PageParser through its real constructor"""
    import configparser
    import torch
    from pero_ocr.document_ocr.page_parser import PageParser
    cfg = configparser.ConfigParser()
    cfg.read_string(config_text(decoder, beam, threshold, run_decoder))
    return PageParser(cfg, device=torch.device('cpu'), config_path='')
