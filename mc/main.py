"""Entry point of ./check.  Sets up import paths so that pero_ocr comes from VERIF_REPO
(default /repo, the current working tree), then dispatches to the explorer or to the replayer."""
import argparse
import os
import sys

VERIF = os.path.dirname(os.path.dirname(os.path.abspath(__file__)))
REPO = os.path.abspath(os.environ.get('VERIF_REPO', '/repo'))


def setup_paths():
    # the working tree first, then its user_scripts (parse_folder, merge_ocr_results are imported as modules)
    sys.path[0:0] = [REPO, os.path.join(REPO, 'user_scripts'), VERIF]
    os.environ.setdefault('PYTHONHASHSEED', '0')
    import pero_ocr
    got = os.path.realpath(os.path.dirname(os.path.dirname(pero_ocr.__file__)))
    if got != os.path.realpath(REPO):
        print(f'HARNESS-ERROR pero_ocr imported from {got}, expected {REPO}')
        sys.exit(2)


def main():
    ap = argparse.ArgumentParser()
    ap.add_argument('prop')
    ap.add_argument('--tier', default=os.environ.get('VERIF_TIER', 'quick'), choices=['quick', 'thorough'])
    ap.add_argument('--replay', default=None)
    ap.add_argument('--json', action='store_true', help='replay: print the observation as JSON (used for the determinism check)')
    ap.add_argument('--history', action='store_true', help='replay: first execute the cases that precede the recorded one in its shard')
    ap.add_argument('--workers', type=int, default=int(os.environ.get('VERIF_WORKERS', '16')))
    ap.add_argument('--no-confirm', action='store_true')
    ap.add_argument('--no-evidence', action='store_true', help='do not (re)write evidence/<ID>.json (used by the mutation tool)')
    args = ap.parse_args()
    setup_paths()
    from mc import core
    if args.replay:
        sys.exit(core.replay(args.prop, args.replay, as_json=args.json, history=args.history))
    try:
        rc = core.run_check(args.prop, args.tier, workers=args.workers, confirm=not args.no_confirm,
                            write_evidence=not args.no_evidence)
    except SystemExit:
        raise
    except BaseException as e:  # noqa -- an exception escaping the driver is a harness error (exit 2), never a verdict (exit 1)
        import traceback
        print('HARNESS-ERROR the explorer itself failed:\n' + ''.join(traceback.format_exception(e))[-3000:])
        rc = 2
    sys.exit(rc)


if __name__ == '__main__':
    main()
