"""Boring reference models for C13: full-matrix Wagner-Fischer and brute force over substrings.
Pure python, no numpy, equality of symbols by python `==` on the ORIGINAL objects (no coercion)."""


def wagner_fischer(source, target, sub=1, ins=1, dele=1):
    n, m = len(source), len(target)
    D = [[0] * (m + 1) for _ in range(n + 1)]
    for j in range(1, m + 1):
        D[0][j] = j * ins
    for i in range(1, n + 1):
        D[i][0] = i * dele
        for j in range(1, m + 1):
            eq = same(source[i - 1], target[j - 1])
            D[i][j] = min(D[i - 1][j] + dele, D[i][j - 1] + ins, D[i - 1][j - 1] + (0 if eq else sub))
    return D[n][m]


def best_substring_distance(longer, shorter):
    """min over all (contiguous, possibly empty) substrings u of `longer` of unit-cost distance(u, shorter)."""
    best = None
    n = len(longer)
    for a in range(n + 1):
        for b in range(a, n + 1):
            d = wagner_fischer(longer[a:b], shorter)
            if best is None or d < best:
                best = d
    return best


def same(a, b):
    """symbol equality that tolerates numpy scalar wrappers (np.int64(1) == 1) but never equates 1 with '1'"""
    return isinstance(a, str) == isinstance(b, str) and bool(a == b)
