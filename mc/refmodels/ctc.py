"""Boring reference models for CTC decoding (C02, C03, C04).

* ctc_brute: true CTC probability of every transcript by enumerating all C^T alignments.
* ref_prefix_beam: textbook frame-synchronous prefix beam search (dict prefix -> (Pb, Pnb)) with optional LM scores.
  Where the beam boundary is tied (within eps) the statement leaves the choice open, so the reference returns EVERY
  beam reachable under some tie resolution; an implementation result is right if it equals one of them.
"""
import itertools
import math

NEG = float('-inf')


def lse(a, b):
    if a == NEG:
        return b
    if b == NEG:
        return a
    m = max(a, b)
    return m + math.log(math.exp(a - m) + math.exp(b - m))


def collapse(path, blank):
    out, prev = [], None
    for s in path:
        if s != prev and s != blank:
            out.append(s)
        prev = s
    return tuple(out)


def ctc_brute(P, blank):
    """P: list of rows of probabilities. -> {transcript tuple: probability} (only non-zero ones)"""
    T, C = len(P), len(P[0])
    out = {}
    for path in itertools.product(range(C), repeat=T):
        p = 1.0
        for t, s in enumerate(path):
            p *= P[t][s]
            if p == 0.0:
                break
        if p > 0.0:
            k = collapse(path, blank)
            out[k] = out.get(k, 0.0) + p
    return out


def ctc_forward_log(logP, labels, blank):
    """log of the true CTC probability of one transcript by the forward recursion (for lines too long to enumerate)"""
    states = [blank]
    for l in labels:
        states += [l, blank]
    S = len(states)
    cur = [NEG] * S
    cur[0] = logP[0][blank]
    if S > 1:
        cur[1] = logP[0][states[1]]
    for row in logP[1:]:
        nxt = [NEG] * S
        for k in range(S):
            v = cur[k]
            if k >= 1:
                v = lse(v, cur[k - 1])
            if k >= 2 and states[k] != blank and states[k] != states[k - 2]:
                v = lse(v, cur[k - 2])
            if v != NEG and row[states[k]] != NEG:
                nxt[k] = v + row[states[k]]
        cur = nxt
    return lse(cur[-1], cur[-2]) if S > 1 else cur[-1]


def ref_prefix_beam(logP, k, select, lm_score=None, lm_scale=1.0, eps=1e-9, max_branches=64):
    """logP: list of rows of log-probabilities, blank last.
    select(row_nonblank) -> list of selected symbol indices for this frame.
    lm_score(prefix tuple) -> LM log-score of the whole prefix (incl. insertion bonuses) or None.
    Returns (list of final beams, stats); a beam is {prefix: (Pb, Pnb)}.
    """
    stats = {'pruned': 0, 'joined': 0, 'all_pruned_frames': 0, 'tie_branches': 0, 'truncated': False}
    beams = [{(): (0.0, NEG)}]
    for row in logP:
        blank_lp = row[-1]
        sel = list(select(row[:-1]))
        nxt = []
        for beam in beams:
            cand = {}
            if not sel:
                stats['all_pruned_frames'] += 1
                for l, (pb, pnb) in beam.items():
                    cand[l] = (lse(pb, pnb) + blank_lp, NEG)
                nxt.append(cand)
                continue
            for l, (pb, pnb) in beam.items():
                # stay on the same prefix
                npb = lse(pb, pnb) + blank_lp
                npnb = pnb + row[l[-1]] if (l and l[-1] in sel) else NEG
                old = cand.get(l, (NEG, NEG))
                cand[l] = (lse(old[0], npb), lse(old[1], npnb))
                # extend by every selected symbol
                for c in sel:
                    if l and c == l[-1]:
                        ext = pb + row[c]                  # a repeat needs a separating blank
                    else:
                        ext = lse(pb, pnb) + row[c]
                    if ext == NEG:
                        continue
                    l2 = l + (c,)
                    if l2 in beam:
                        stats['joined'] += 1
                    old = cand.get(l2, (NEG, NEG))
                    cand[l2] = (old[0], lse(old[1], ext))
            # rank by total score, keep the k best finite ones, all tie resolutions
            scored = []
            for l, (pb, pnb) in cand.items():
                tot = lse(pb, pnb)
                if lm_score is not None and tot > NEG:
                    tot = tot + lm_scale * lm_score(l)
                if tot > NEG and not math.isnan(tot):
                    scored.append((tot, l))
            scored.sort(key=lambda x: (-x[0], x[1]))
            if len(scored) <= k:
                nxt.append({l: cand[l] for _, l in scored})
                continue
            stats['pruned'] += 1
            bound = scored[k - 1][0]
            sure = [l for s, l in scored if s > bound + eps]
            tied = [l for s, l in scored if abs(s - bound) <= eps]
            need = k - len(sure)
            combos = list(itertools.combinations(tied, need))
            if len(combos) > 1:
                stats['tie_branches'] += 1
            for combo in combos:
                nxt.append({l: cand[l] for l in sure + list(combo)})
        # deduplicate beams
        uniq = {}
        for b in nxt:
            uniq[tuple(sorted((l, round(v[0], 9), round(v[1], 9)) for l, v in b.items()))] = b
        beams = list(uniq.values())
        if len(beams) > max_branches:
            stats['truncated'] = True
            beams = beams[:max_branches]
    return beams, stats
