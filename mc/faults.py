"""Environment answers: exhaustive injection of ONE failure into the calls the code under test makes to its dependencies.

A deviation-bounded exploration in the sense of the guidance: the default environment answer is "the call succeeds"; a deviation is
one call that fails (an allocation raising MemoryError, a network raising an out-of-memory RuntimeError, an I/O call raising OSError).
`explore(call)` first runs `call()` with all answers default and counts the interceptable calls made *directly from code under
REPO* (calls made by the harness or from inside numpy / torch are never counted or failed), then re-runs `call()` once per call
index k with the k-th call failing.  What each run did - returned a value, or raised - is handed to the oracle of the property:

    * the operation may report the failure (any exception) - the properties do not promise success under a failing environment;
    * but a value that IS returned is a result like any other and has to satisfy the property.

Executions are deterministic: the k-th call is the k-th call of the same deterministic program.
"""
import contextlib
import os
import sys

from mc.core import REPO

_PREFIX = REPO + os.sep


class Injector:
    def __init__(self, targets, make_exc):
        """targets: list of (object, attribute name) to intercept; make_exc(name) -> exception instance to raise"""
        self.targets = list(targets)
        self.make_exc = make_exc
        self.count = 0
        self.fail_at = None
        self.fired = None
        self.sites = []

    def _wrap(self, orig, name):
        inj = self

        def intercepted(*a, **k):
            f = sys._getframe(1)
            fn = f.f_code.co_filename
            if fn.startswith(_PREFIX):
                i = inj.count
                inj.count += 1
                site = (fn[len(_PREFIX):], f.f_code.co_name, name)
                inj.sites.append(site)
                if inj.fail_at == i:
                    inj.fired = site
                    raise inj.make_exc(name)
            return orig(*a, **k)
        intercepted.__wrapped__ = orig
        return intercepted

    @contextlib.contextmanager
    def active(self, fail_at=None):
        self.count, self.fail_at, self.fired, self.sites = 0, fail_at, None, []
        saved = []
        try:
            for obj, name in self.targets:
                orig = getattr(obj, name)
                own = name in getattr(obj, '__dict__', {})        # (a method looked up on the class is shadowed on the instance, and un-shadowed afterwards)
                saved.append((obj, name, obj.__dict__[name] if own else orig, own or isinstance(obj, type) or not hasattr(obj, '__dict__')))
                setattr(obj, name, self._wrap(orig, name))
            yield self
        finally:
            for obj, name, orig, put_back in reversed(saved):
                if put_back:
                    setattr(obj, name, orig)
                else:
                    try:
                        delattr(obj, name)
                    except AttributeError:
                        setattr(obj, name, orig)

    def explore(self, call, max_points=None):
        """yields (k, site, ('ok', value) | ('raised', exception)) for every fault point k of call(); k = None is the fault-free run"""
        try:        # warm-up without any interception: lazily compiled code (numba) must not be compiled while its globals are wrapped
            call()
        except Exception:  # noqa
            pass
        with self.active(None):
            try:
                out = ('ok', call())
            except Exception as e:  # noqa
                out = ('raised', e)
            n = self.count
        yield None, None, out
        for k in range(n if max_points is None else min(n, max_points)):
            with self.active(k):
                try:
                    out = ('ok', call())
                except Exception as e:  # noqa
                    out = ('raised', e)
                site = self.fired
            if site is None:
                continue        # the run took another path and made fewer calls: nothing was injected
            yield k, site, out


def numpy_allocators():
    import numpy as np
    names = ['ones', 'zeros', 'empty', 'full', 'ones_like', 'zeros_like', 'empty_like', 'full_like', 'arange', 'array', 'asarray',
             'concatenate', 'stack', 'vstack', 'hstack', 'tile', 'repeat', 'copy']
    return [(np, n) for n in names if hasattr(np, n)]


def memory_error(name):
    return MemoryError(f'Unable to allocate array (injected into numpy.{name})')


class AttributeInjector(Injector):
    """an Injector whose targets may also be read-only properties of a class: READING the attribute from code under REPO is the call
    that is counted / made to fail (e.g. shapely's `geometry.is_valid`, `geometry.convex_hull`, which run a GEOS operation)"""

    def _wrap(self, orig, name):
        if isinstance(orig, property):
            return property(Injector._wrap(self, orig.fget, name), orig.fset, orig.fdel, orig.__doc__)
        return Injector._wrap(self, orig, name)


def geos_operations(properties=False):
    """targets for the GEOS predicates / set operations of shapely, as methods of the geometry classes and as functions of the shapely
    module (whichever spelling the code under test uses; calls shapely makes internally are never counted). With `properties` also the
    operations spelled as attributes (validity test, convex hull, length, area) - these need an AttributeInjector."""
    import shapely
    from shapely.geometry.base import BaseGeometry
    names = ['intersects', 'intersection'] + (['is_valid', 'convex_hull', 'length', 'area'] if properties else [])
    out = []
    for n in names:
        if n in BaseGeometry.__dict__:
            out.append((BaseGeometry, n))
        if callable(getattr(shapely, n, None)):
            out.append((shapely, n))
    return out


def geos_error(kind):
    """make_exc for a failing GEOS operation: kind = 'TopologicalError' (what shapely 1 raised) or 'GEOSException' (what shapely 2 raises)"""
    import shapely.errors

    def make(name):
        cls = getattr(shapely.errors, kind, None) or shapely.errors.ShapelyError
        return cls(f'TopologyException: side location conflict (injected into {name})')
    return make
