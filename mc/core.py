"""Explorer driver shared by all property checks.

A property module (props/cNN_*.py) provides

    ID                      'C13'
    def setup(tier)         optional; runs once in the parent before workers are forked (warm-ups, stub files)
    def shards(tier)        deterministic list of JSON-able shard descriptors that together cover the bounded space
    def run_shard(shard, ctx, tier)   enumerates every case of the shard and calls check_case on it
    def check_case(case, ctx)         executes the REAL code on one case and evaluates the oracle
    def describe(tier)      dict: rule, bounds, alphabets, assumptions, (min_nontrivial)

`case` is a small JSON document (alphabet indices, configuration, event history) that is sufficient to
re-execute the case in a fresh interpreter (`./check ID --replay FILE`), without any explorer code.

The explorer never samples: shards() x run_shard() enumerate the whole bounded space; if a wall-clock cap stops
a run the evidence says exhaustive=false and which shards were completed.
"""
import collections
import contextlib
import hashlib
import importlib
import io
import json
import logging
import multiprocessing
import os
import pkgutil
import signal
import subprocess
import sys
import time
import traceback

VERIF = os.path.dirname(os.path.dirname(os.path.abspath(__file__)))
REPO = os.path.abspath(os.environ.get('VERIF_REPO', '/repo'))
MAX_KEPT_VIOLATIONS = 40      # per worker shard (all are counted)
MAX_SAMPLES = 6


def h64(obj):
    """Stable 64-bit hash of a canonical python value (used for state / case deduplication)."""
    if not isinstance(obj, (bytes, bytearray)):
        obj = repr(obj).encode('utf-8', 'surrogatepass')
    return hashlib.blake2b(obj, digest_size=8).digest()


class HarnessError(Exception):
    pass


class CaseTimeout(BaseException):
    pass


class StopShard(BaseException):
    """raised by begin_case when a history replay has executed the requested prefix of a shard"""


class Ctx:
    """Accumulates what one worker (or one replay) observed."""

    def __init__(self, prop_id, tier, seed):
        self.prop_id, self.tier, self.seed = prop_id, tier, seed
        self.evals = 0                 # cases generated
        self.transitions = 0           # executions of the real code (events applied / functions called)
        self.states = set()            # canonical state hashes
        self.nontriv = set()           # hashes of distinct non-trivial cases
        self.tags = collections.Counter()      # named counters (also used for vacuity guards)
        self.outcomes = set()          # hashes of distinct observed outcomes
        self.viol = []                 # kept violations (dicts)
        self.nviol = 0
        self.viol_keys = collections.Counter()
        self.samples = []
        self.auto_samples = []         # a few of the enumerated cases, recorded by the driver itself
        self.harness_errors = []
        self._case = None
        self.shard = None              # descriptor of the shard being enumerated (for history replays)
        self.stop_after = None         # history replay: stop after this many cases of the shard

    # ---- bookkeeping used by property modules
    def begin_case(self, case):
        if self.stop_after is not None and self.evals >= self.stop_after:
            raise StopShard()
        self.evals += 1
        self._case = case
        if self.evals in (1, 7, 50, 400, 3000) and len(self.auto_samples) < MAX_SAMPLES:
            self.auto_samples.append({'case': case})
        self.reseed()

    def reseed(self):
        """the library's own use of random / numpy.random (tie-break jitter, sampling) is seeded from VERIF_SEED AND the case, so that
        different cases see different random streams while every case stays exactly replayable"""
        import random
        import numpy as np
        try:
            cs = int.from_bytes(h64((self.seed, json.dumps(self._case, sort_keys=True, default=str))), 'big') % (2 ** 32)
        except Exception:  # noqa
            cs = self.seed % (2 ** 32)
        random.seed(cs)
        np.random.seed(cs)
        t = sys.modules.get('torch')
        if t is not None and getattr(self, 'seed_torch', False):
            t.manual_seed(cs)

    def executed(self, n=1):
        self.transitions += n

    def state(self, key):
        self.states.add(h64(key))

    def nontrivial(self, key, tag=None):
        self.nontriv.add(h64(key))
        if tag:
            self.tags[tag] += 1

    def tag(self, name, n=1):
        self.tags[name] += n

    def outcome(self, obj):
        self.outcomes.add(h64(obj))

    def sample(self, obj):
        if len(self.samples) < MAX_SAMPLES:
            self.samples.append(obj)

    def violation(self, clause, key, detail, case=None):
        """clause: which sentence of the property; key: witness class (stable, specific); detail: free text."""
        self.nviol += 1
        self.viol_keys[key] += 1
        if len(self.viol) < MAX_KEPT_VIOLATIONS or self.viol_keys[key] == 1:
            self.viol.append({'clause': clause, 'witness_key': key, 'detail': str(detail)[:2000],
                              'case': case if case is not None else self._case, 'shard': self.shard, 'index': self.evals,
                              'worker_shards': getattr(self, 'worker_shards', [])})

    @contextlib.contextmanager
    def time_limit(self, seconds):
        def handler(signum, frame):
            raise CaseTimeout()
        old = signal.signal(signal.SIGALRM, handler)
        signal.setitimer(signal.ITIMER_REAL, seconds)
        try:
            yield
        finally:
            signal.setitimer(signal.ITIMER_REAL, 0)
            signal.signal(signal.SIGALRM, old)

    def export(self):
        return {'evals': self.evals, 'transitions': self.transitions, 'states': self.states, 'nontriv': self.nontriv,
                'tags': self.tags, 'outcomes': self.outcomes, 'viol': self.viol, 'nviol': self.nviol,
                'viol_keys': self.viol_keys, 'samples': self.samples, 'auto_samples': self.auto_samples,
                'harness_errors': self.harness_errors}


def innermost_repo_frame(tb):
    """(file, function) of the innermost traceback frame located in the code under test, or None."""
    found = None
    for fs in traceback.extract_tb(tb):
        if not os.path.isabs(fs.filename):
            continue
        fn = os.path.abspath(fs.filename)
        if fn.startswith(REPO + os.sep):
            found = (os.path.relpath(fn, REPO), fs.name)
    return found


def innermost_is_harness(tb):
    frames = traceback.extract_tb(tb)
    if not frames:
        return True
    fn = frames[-1].filename
    if not os.path.isabs(fn):           # frames of compiled extensions carry relative source names ('src/lxml/etree.pyx'): a dependency, not the harness
        return False
    return os.path.abspath(fn).startswith(VERIF + os.sep)


def guarded_check(mod, case, ctx):
    """Run check_case; an exception escaping from the code under test is a violation ('the operation must
    produce a result'), an exception raised by harness code is a harness error (never a verdict)."""
    ctx.begin_case(case)
    try:
        mod.check_case(case, ctx)
    except CaseTimeout:
        ctx.violation('termination', f'{mod.ID}/timeout', 'case did not finish within its time limit', case)
    except HarnessError as e:
        ctx.harness_errors.append(f'{e} case={json.dumps(case)[:300]}')
    except Exception as e:  # noqa
        tb = sys.exc_info()[2]
        fr = innermost_repo_frame(tb)
        if fr is not None and not innermost_is_harness(tb):
            ctx.violation('no-exception', f'{mod.ID}/raises/{type(e).__name__}@{fr[0]}:{fr[1]}',
                          f'{type(e).__name__}: {e}', case)
        else:
            ctx.harness_errors.append(''.join(traceback.format_exception(e))[-1500:] + f' case={json.dumps(case)[:300]}')


def load_prop(prop_id):
    import props
    for m in pkgutil.iter_modules(props.__path__):
        if m.name.lower().startswith(prop_id.lower() + '_') or m.name.lower() == prop_id.lower():
            return importlib.import_module('props.' + m.name)
    raise SystemExit(f'HARNESS-ERROR unknown property {prop_id}')


# ------------------------------------------------------------------ workers
_W = {}


# ---- optional line coverage of the code under test (tools/linecov.py): which lines of /repo do the cases of a check execute at all?
# A line no case executes cannot be observed by any oracle.  Uses sys.monitoring (each location reports once, then is disabled).
def linecov_start():
    d = os.environ.get('VERIF_LINECOV')
    if not d or not hasattr(sys, 'monitoring'):
        return
    mon = sys.monitoring
    tool = mon.COVERAGE_ID
    try:
        mon.use_tool_id(tool, 'verif-linecov')
    except ValueError:
        pass
    hits = _W.setdefault('cov', set())
    prefix = REPO + os.sep

    def on_line(code, line):
        fn = code.co_filename
        if fn.startswith(prefix):
            hits.add((fn[len(prefix):], line))
        return mon.DISABLE
    mon.register_callback(tool, mon.events.LINE, on_line)
    mon.set_events(tool, mon.events.LINE)


# ---- uninitialised memory is an environment answer like any other: np.empty / torch.empty hand out whatever the allocator has, which differs from
# run to run and from process to process (a fresh process mostly sees zero pages).  The harness owns it: arrays that the CODE UNDER TEST
# allocates without initialising them are filled with a poison (NaN for floats, a large odd pattern for integers) - correct code overwrites
# every element before it reads it, so it cannot tell; code that reads such memory now does so deterministically and visibly.
def poison_uninitialised():
    if _W.get('poisoned') or os.environ.get('VERIF_NO_POISON'):
        return
    _W['poisoned'] = True
    import numpy as np
    prefix = REPO + os.sep

    def from_repo():
        f = sys._getframe(2)
        return f.f_code.co_filename.startswith(prefix)

    def np_fill(a):
        try:
            if a.dtype.kind in 'fc':
                a.fill(np.nan)
            elif a.dtype.kind in 'iu':
                a.fill(np.iinfo(a.dtype).max - 6)
            elif a.dtype.kind == 'b':
                a.fill(True)
        except Exception:  # noqa
            pass
        return a

    for name in ('empty', 'empty_like'):
        orig = getattr(np, name)

        def make(orig):
            def poisoned(*a, **k):
                out = orig(*a, **k)
                return np_fill(out) if from_repo() else out
            poisoned.__wrapped__ = orig
            return poisoned
        setattr(np, name, make(orig))
    try:
        import torch
    except Exception:  # noqa
        return
    for name in ('empty', 'empty_like'):
        orig = getattr(torch, name)

        def make_t(orig):
            def poisoned(*a, **k):
                out = orig(*a, **k)
                if from_repo() and out.numel():
                    if out.is_floating_point() or out.is_complex():
                        out.fill_(float('nan'))
                    elif out.dtype != torch.bool:
                        out.fill_(torch.iinfo(out.dtype).max - 6)
                return out
            poisoned.__wrapped__ = orig
            return poisoned
        setattr(torch, name, make_t(orig))


def linecov_dump(prop_id, tag):
    d = os.environ.get('VERIF_LINECOV')
    if not d or 'cov' not in _W:
        return
    os.makedirs(d, exist_ok=True)
    with open(os.path.join(d, f'{prop_id}-{os.getpid()}-{tag}.json'), 'w') as f:
        json.dump(sorted(_W['cov']), f)


def _worker_init(prop_id, tier, seed):
    devnull = os.open(os.devnull, os.O_WRONLY)
    os.dup2(devnull, 1)
    try:        # library chatter on stderr (e.g. "Constructing ...Decoder") goes to a log, not to the check's output
        errlog = os.open(os.path.join(VERIF, '.cache', 'worker-stderr.log'), os.O_WRONLY | os.O_CREAT | os.O_APPEND)
        os.dup2(errlog, 2)
    except OSError:
        os.dup2(devnull, 2)
    logging.disable(logging.CRITICAL)
    _W['mod'] = load_prop(prop_id)
    _W['args'] = (prop_id, tier, seed)
    poison_uninitialised()
    try:
        import torch
        torch.set_num_threads(1)
    except Exception:
        pass


def _worker_run(i_shard):
    i, shard = i_shard
    prop_id, tier, seed = _W['args']
    ctx = Ctx(prop_id, tier, seed)
    ctx.shard = shard
    ctx.shard_index = i
    ctx.worker_shards = list(_W.setdefault('done', []))     # shards this worker ran before, in order
    _W['done'].append(i)
    mod = _W['mod']
    t0 = time.time()
    try:
        mod.run_shard(shard, ctx, tier)
    except Exception as e:  # noqa  -- enumeration code itself failed
        ctx.harness_errors.append('run_shard: ' + ''.join(traceback.format_exception(e))[-1500:])
    out = ctx.export()
    out['i'] = i
    out['wall'] = time.time() - t0
    return out


def _worker_run_lane(lane):
    out = [_worker_run(x) for x in lane]
    linecov_dump(_W['args'][0], f'lane{lane[0][0]}' if lane else 'lane')
    return out


LANES = 64


# ------------------------------------------------------------------ findings
def load_known_findings():
    p = os.path.join(VERIF, 'known_findings.json')
    if not os.path.exists(p):
        return []
    with open(p) as f:
        return json.load(f).get('findings', [])


def write_replay(prop_id, v, seed):
    d = os.path.join(VERIF, 'replays', prop_id)
    os.makedirs(d, exist_ok=True)
    doc = {'property': prop_id, 'seed': seed, 'clause': v['clause'], 'witness_key': v['witness_key'],
           'detail': v['detail'], 'case': v['case'], 'shard': v.get('shard'), 'index': v.get('index'), 'tier': v.get('tier'),
           'worker_shards': v.get('worker_shards', []),
           'needs_history': bool(v.get('needs_history'))}
    sha = hashlib.sha1(json.dumps([prop_id, v['witness_key'], v['case']], sort_keys=True).encode()).hexdigest()[:16]
    path = os.path.join(d, sha + '.json')
    with open(path, 'w') as f:
        json.dump(doc, f, indent=1, sort_keys=True)
    return path


def fresh_replay(prop_id, path, history=False):
    env = dict(os.environ)
    p = subprocess.run([os.path.join(VERIF, 'check'), prop_id, '--replay', path, '--json'] + (['--history'] if history else []), env=env,
                       stdout=subprocess.PIPE, stderr=subprocess.PIPE, text=True, timeout=900)
    lines = [l for l in p.stdout.splitlines() if l.startswith('OBS ')]
    return p.returncode, (lines[-1][4:] if lines else None), p.stderr[-800:]


def replay(prop_id, path, as_json=False, history=False):
    """Re-executes one recorded case in this (fresh) interpreter.  With history (or when the replay file says it needs it) the
    cases that the shard enumerated BEFORE the recorded one are executed first: some violations only show after earlier calls
    (state kept between calls by the code under test)."""
    logging.disable(logging.CRITICAL)
    mod = load_prop(prop_id)
    poison_uninitialised()
    with open(path) as f:
        doc = json.load(f)
    seed = int(os.environ.get('VERIF_SEED', doc.get('seed', 0)))
    history = history or bool(doc.get('needs_history'))
    buf = io.StringIO()
    tier = doc.get('tier') or 'quick'
    ctx = Ctx(prop_id, tier if history else 'quick', seed)
    with contextlib.redirect_stdout(buf):
        if history and doc.get('shard') is not None and doc.get('index'):
            if hasattr(mod, 'setup'):
                mod.setup(tier)
            all_shards = list(mod.shards(tier))
            for si in doc.get('worker_shards', []):         # what the worker had executed before, in the same order
                pre = Ctx(prop_id, tier, seed)
                pre.shard = all_shards[si]
                mod.run_shard(all_shards[si], pre, tier)
            ctx.shard, ctx.stop_after = doc['shard'], int(doc['index'])
            try:
                mod.run_shard(doc['shard'], ctx, tier)
            except StopShard:
                pass
            ctx.viol = [v for v in ctx.viol if v.get('index') == int(doc['index'])]
        else:
            if hasattr(mod, 'setup'):
                mod.setup('replay')
            guarded_check(mod, doc['case'], ctx)
    if ctx.harness_errors:
        print('HARNESS-ERROR', ctx.harness_errors[0])
        return 2
    obs = sorted({(v['clause'], v['witness_key'], v['detail']) for v in ctx.viol})
    if as_json:
        print('OBS ' + json.dumps(obs, sort_keys=True))
        return 1 if obs else 0
    print(f'replay of {path}: case = {json.dumps(doc["case"])[:1500]}' +
          (f' (after the cases its worker had executed before: shards {doc.get("worker_shards", [])} and the {int(doc["index"]) - 1} preceding cases of its shard)' if history and doc.get('index') else ''))
    for c, k, d in obs:
        print(f'  violated clause={c} witness_key={k}\n    {d}')
    if not obs:
        print('  property holds on this case')
        return 0
    print(f'VIOLATION property={prop_id} replay={path}')
    return 1


# ------------------------------------------------------------------ evidence
def validate_evidence(path):
    schema = '/root/.vp/EVIDENCE.schema.json'
    if not os.path.exists(schema):
        schema = os.path.join(VERIF, 'mc', 'EVIDENCE.schema.json')
    vt = '/opt/veriftools/pyvenv/bin/python'
    if not (os.path.exists(schema) and os.path.exists(vt)):
        return None
    code = ('import json,sys,jsonschema; jsonschema.validate(json.load(open(sys.argv[2])), json.load(open(sys.argv[1])))')
    p = subprocess.run([vt, '-c', code, schema, path], stdout=subprocess.PIPE, stderr=subprocess.PIPE, text=True)
    return p.returncode == 0, p.stderr[-600:]


def run_check(prop_id, tier, workers=16, confirm=True, write_evidence=True):
    t0 = time.time()
    logging.disable(logging.CRITICAL)
    seed = int(os.environ.get('VERIF_SEED', '0') or 0)
    mod = load_prop(prop_id)
    prop_id = mod.ID
    silent = io.StringIO()
    linecov_start()
    poison_uninitialised()
    with contextlib.redirect_stdout(silent):
        if hasattr(mod, 'setup'):
            mod.setup(tier)
        shards = list(mod.shards(tier))
        desc = mod.describe(tier)
    cap = float(os.environ.get('VERIF_WALL_CAP', desc.get('wall_cap', 0) or 0))
    workers = max(1, min(workers, os.cpu_count() or 1, len(shards)))

    tot = Ctx(prop_id, tier, seed)
    done_shards, capped = 0, False
    mpctx = multiprocessing.get_context('fork')
    # Deterministic schedule: the shards are dealt out to a fixed number of LANES (lane j = shards j, j + L, j + 2L, ...; L does not depend
    # on the machine); every lane is executed from start to end by ONE freshly forked process, so the sequence of cases a process executes -
    # and with it every effect of state kept between calls, by the code under test or by the harness - is the same on every run and on every
    # machine.  Each shard records the shards its lane ran before it, so that a history replay re-executes exactly that sequence.
    n_lanes = max(1, min(LANES, len(shards)))
    lanes = [[(i, sh) for i, sh in enumerate(shards) if i % n_lanes == j] for j in range(n_lanes)]
    with mpctx.Pool(workers, initializer=_worker_init, initargs=(prop_id, tier, seed), maxtasksperchild=1) as pool:
        it = pool.imap_unordered(_worker_run_lane, lanes, chunksize=1)
        results = []
        while True:
            try:
                if cap:
                    left = cap - (time.time() - t0)
                    if left <= 0:
                        raise multiprocessing.TimeoutError()
                    rs = it.next(timeout=left)
                else:
                    rs = it.next()
            except StopIteration:
                break
            except multiprocessing.TimeoutError:
                capped = True
                pool.terminate()
                break
            results.extend(rs)
    results.sort(key=lambda r: r['i'])      # merge in shard order: deterministic
    for r in results:
        done_shards += 1
        tot.evals += r['evals']
        tot.transitions += r['transitions']
        tot.states |= r['states']
        tot.nontriv |= r['nontriv']
        tot.tags.update(r['tags'])
        tot.outcomes |= r['outcomes']
        tot.nviol += r['nviol']
        tot.viol_keys.update(r['viol_keys'])
        tot.viol.extend(r['viol'])
        for s in r['samples']:
            tot.sample(s)
        for s in r['auto_samples']:
            if len(tot.auto_samples) < MAX_SAMPLES and (len(tot.auto_samples) < 2 or r['i'] % 3 == 0):
                tot.auto_samples.append(s)
        tot.harness_errors.extend(r['harness_errors'])

    exhaustive = (not capped) and done_shards == len(shards)

    # ---- classify violations
    known = [k for k in load_known_findings() if k.get('property') == prop_id]
    recorded = {k['witness_key']: k for k in known if k.get('status') == 'recorded'}
    by_key = collections.OrderedDict()
    for v in tot.viol:
        v['tier'] = tier
        by_key.setdefault(v['witness_key'], v)
    new_keys = [k for k in by_key if k not in recorded]
    known_hit = [k for k in by_key if k in recorded]

    lines, rc = [], 0
    if tot.harness_errors:
        print(f'HARNESS-ERROR property={prop_id} ({len(tot.harness_errors)} errors); first:\n{tot.harness_errors[0]}')
        rc = 2

    replays = {}
    for k in list(by_key):
        replays[k] = write_replay(prop_id, by_key[k], seed)

    unconfirmed = set()
    if new_keys and confirm:
        # a violation is only reported if it reproduces, identically, twice, in a fresh interpreter: first the recorded case alone,
        # and if that does not show it, the case after the preceding cases of its shard (state kept between calls)
        for k in new_keys[:6]:
            a = fresh_replay(prop_id, replays[k])
            bb = fresh_replay(prop_id, replays[k])
            ok = a[0] == 1 and bb[0] == 1 and a[1] == bb[1] and a[1] is not None
            with_history = False
            if not ok and by_key[k].get('shard') is not None:
                a = fresh_replay(prop_id, replays[k], history=True)
                bb = fresh_replay(prop_id, replays[k], history=True)
                ok = a[0] == 1 and bb[0] == 1 and a[1] == bb[1] and a[1] is not None
                with_history = a[0] == 1 and bb[0] == 1
            if not ok and a[0] == 1 and bb[0] == 1 and a[1] and bb[1]:
                # both fresh runs violate, but the messages differ: if both violate the SAME clause under the SAME witness key, the code
                # under test itself is not deterministic on this case (e.g. it reads uninitialised memory) - that is a reproduced violation
                ka = {(x[0], x[1]) for x in json.loads(a[1])}
                kb = {(x[0], x[1]) for x in json.loads(bb[1])}
                if ka == kb and any(key == k for _, key in ka):
                    ok = True
                    by_key[k]['detail'] = '[reproduced in two fresh interpreters with varying magnitude: the code under test is not deterministic here] ' + by_key[k]['detail']
            if ok and with_history:
                by_key[k]['needs_history'] = True
                by_key[k]['detail'] = '[shows only after earlier cases were executed in the same process: state kept between calls] ' + by_key[k]['detail']
            if ok:
                replays[k] = write_replay(prop_id, by_key[k], seed)
            if not ok:
                print(f'HARNESS-ERROR nondeterminism: replay of {replays[k]} did not reproduce '
                      f'(rc {a[0]}/{bb[0]}, same_obs={a[1] == bb[1]}) {a[2][-300:]}')
                unconfirmed.add(k)
                rc = 2
        if all(k in unconfirmed for k in new_keys[:6]):
            unconfirmed.update(new_keys)        # nothing reproduced: the keys beyond the first six are not trusted either
    for k in known_hit:
        lines.append(f'KNOWN-FINDING: property={prop_id} {recorded[k]["what"]} [witness_key={k} cases={tot.viol_keys[k]}]')
    # A violation that was reproduced twice in a fresh interpreter stands on its own: it is reported (exit 1) even if OTHER cases of the
    # run ended in a harness error or did not reproduce - those are printed as HARNESS-ERROR lines above and are no verdict.
    reported = [k for k in new_keys if k not in unconfirmed]
    for k in reported:
        v = by_key[k]
        lines.append(f'VIOLATION property={prop_id} replay={replays[k]}')
        lines.append(f'  clause={v["clause"]} witness_key={k} cases={tot.viol_keys[k]} :: {v["detail"][:400]}')
    if reported:
        rc = 1
    new_keys = reported if rc == 1 else new_keys

    # ---- vacuity guards
    min_nt = desc.get('min_nontrivial', 2)
    if rc == 0 and exhaustive and len(tot.nontriv) < min_nt:
        print(f'HARNESS-ERROR vacuous exploration: only {len(tot.nontriv)} non-trivial cases (rule: {desc.get("rule")})')
        rc = 2
    for tg in desc.get('required_tags', []):
        if rc == 0 and exhaustive and tot.tags.get(tg, 0) == 0:
            print(f'HARNESS-ERROR vacuous exploration: no case exercised "{tg}"')
            rc = 2
    if rc == 0 and exhaustive and tot.evals > 10 and len(tot.outcomes) < 2:
        print(f'HARNESS-ERROR vacuous exploration: {tot.evals} cases but {len(tot.outcomes)} distinct outcome(s)')
        rc = 2

    wall = time.time() - t0
    ev = {
        'property_id': prop_id, 'tier': tier, 'seed': seed, 'level': 'model_checking',
        'coverage': {
            'states': len(tot.states), 'transitions': tot.transitions,
            'traces_validated_against_impl': tot.transitions,
            'samples': (tot.samples + tot.auto_samples)[:MAX_SAMPLES + 2] or ['<none>'],
            'evaluations': tot.evals, 'distinct_nontrivial': len(tot.nontriv),
            'rule': desc.get('rule', ''), 'exhaustive': bool(exhaustive),
            'distinct_outcomes': len(tot.outcomes),
            'shards_total': len(shards), 'shards_completed': done_shards,
            'wall_cap_s': cap or None, 'cap_hit': capped,
            'schedule': f'{len(shards)} shards dealt to {n_lanes} lanes (lane j = shards j, j+{n_lanes}, ...), one freshly forked process per lane',
            'bounds': desc.get('bounds', {}), 'alphabets': desc.get('alphabets', {}),
            'counters': dict(sorted(tot.tags.items())),
            'violations_by_witness_key': dict(tot.viol_keys),
            'known_findings_seen': known_hit,
            'explanation': desc.get('explanation', 'every explored trace is an execution of the real implementation '
                                    '(no separate model), so traces_validated_against_impl == transitions'),
            'workers': workers, 'repo': REPO,
        },
        'assumptions': desc.get('assumptions', []),
        'wall_s': round(wall, 2), 'violations': len(new_keys) if rc == 1 else 0,
    }
    if write_evidence:
        os.makedirs(os.path.join(VERIF, 'evidence'), exist_ok=True)
        evp = os.path.join(VERIF, 'evidence', prop_id + '.json')
        with open(evp, 'w') as f:
            json.dump(ev, f, indent=1, sort_keys=True, default=str)
        val = validate_evidence(evp)
        if val is not None and not val[0]:
            print(f'HARNESS-ERROR evidence file does not validate: {val[1]}')
            rc = 2
    for l in lines:
        print(l)
    print(f'[{prop_id} {tier}] cases={tot.evals} impl_executions={tot.transitions} states={len(tot.states)} '
          f'nontrivial={len(tot.nontriv)} outcomes={len(tot.outcomes)} exhaustive={exhaustive} '
          f'violations={tot.nviol} ({len(new_keys)} new keys, {len(known_hit)} known) wall={wall:.1f}s rc={rc}')
    if tot.tags:
        print('  counters: ' + ', '.join(f'{k}={v}' for k, v in sorted(tot.tags.items())))
    return rc
