#!/bin/bash
# Release checklist item: every quick check must stay silent on the unchanged tree for several VERIF_SEED values.
cd "$(dirname "$0")/.."
rc=0
for seed in ${SEEDS:-0 1 2 3 12345}; do
  for p in $(python3 -c "import json; print(' '.join(c['property_id'] for c in json.load(open('MANIFEST.json'))['checks']))"); do
    out=$(VERIF_SEED=$seed ./check $p --tier quick --no-evidence 2>&1); r=$?
    echo "seed=$seed $p rc=$r $(echo "$out" | grep -E '^\[' | sed 's/.*wall=/wall=/')"
    if [ $r -ne 0 ] || echo "$out" | grep -q VIOLATION; then rc=1; echo "$out" | tail -5; fi
  done
done
exit $rc
