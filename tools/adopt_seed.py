#!/usr/bin/env python3
"""Copy a confirmed seeded change from /tmp/seed_out/<prop>/<X> into /verif/seeded/<prop>-<X>/ with meta.json.
usage: adopt_seed.py <confirm-log> ...   (reads the JSON objects printed by mutation_run.py confirm --tests)"""
import json, os, re, shutil, sys
V = os.path.dirname(os.path.dirname(os.path.abspath(__file__)))
dec = json.JSONDecoder()
for log in sys.argv[1:]:
    txt = open(log).read()
    i = 0
    while True:
        j = txt.find('{', i)
        if j < 0:
            break
        try:
            obj, k = dec.raw_decode(txt[j:])
        except json.JSONDecodeError:
            i = j + 1
            continue
        i = j + k
        if not obj.get('ok'):
            print('NOT OK', obj.get('dir')); continue
        m = re.search(r'/(C\d+)/([A-Z])$', obj['dir'])
        prop, x = m.group(1), m.group(2)
        dst = os.path.join(V, 'seeded', f'{prop}-{x}')
        os.makedirs(dst, exist_ok=True)
        for f in ('patch.diff', 'demo.py', 'notes.md'):
            shutil.copy(os.path.join(obj['dir'], f), os.path.join(dst, f))
        notes = open(os.path.join(dst, 'notes.md')).read()
        meta = {'property': prop, 'checks': [prop], 'origin': 'independent sub-agent given only the property text and a scratch worktree',
                'needs_to_manifest': notes[:1500],
                'confirmed': {'how': 'tools/mutation_run.py confirm --tests (scratch worktree of /repo HEAD, removed afterwards)',
                              'demo_clean_rc': obj['demo_clean_rc'], 'demo_patched_rc': obj['demo_patched_rc'],
                              'baseline_stable_tests_passed_with_patch': obj.get('tests_stable_passed'),
                              'baseline_tests_missing_with_patch': obj.get('tests_missing')}}
        if os.path.exists(os.path.join(dst, 'meta.json')):
            old = json.load(open(os.path.join(dst, 'meta.json')))
            for k2 in ('detected', 'checks'):
                if k2 in old: meta[k2] = old[k2]
        json.dump(meta, open(os.path.join(dst, 'meta.json'), 'w'), indent=1)
        print('adopted', prop, x)
