#!/usr/bin/env python3
"""Confirm and/or detect seeded property-breaking changes.

  mutation_run.py confirm <dir-with-patch.diff+demo.py> [--tests]   verify a candidate: patch applies, (baseline tests
                                                                     unchanged), demo exits 0 clean / !=0 patched
  mutation_run.py detect  <seeded-id ...|all> [--tier quick]        run the property's check against each seeded change
                                                                     (scratch worktree + VERIF_REPO), expect exit 1

Scratch worktrees live under /tmp and are removed straight away.  Nothing is ever applied to /repo itself.
"""
import argparse, json, os, shutil, subprocess, sys, tempfile, time

V = os.path.dirname(os.path.dirname(os.path.abspath(__file__)))
REPO = '/repo'
BASE = json.load(open('/root/.vp/BASELINE.json')) if os.path.exists('/root/.vp/BASELINE.json') else {}


def sh(cmd, **kw):
    return subprocess.run(cmd, shell=isinstance(cmd, str), stdout=subprocess.PIPE, stderr=subprocess.STDOUT, text=True, **kw)


class Worktree:
    def __init__(self, patch=None):
        self.patch = patch

    def __enter__(self):
        self.dir = tempfile.mkdtemp(prefix='mutwt-', dir='/tmp')
        os.rmdir(self.dir)
        r = sh(['git', '-C', REPO, 'worktree', 'add', '-q', '--detach', self.dir, 'HEAD'])
        if r.returncode:
            raise SystemExit('worktree add failed: ' + r.stdout)
        # carry over uncommitted changes of /repo's working tree (checks must see the current tree)
        d = sh(['git', '-C', REPO, 'diff', 'HEAD'])
        if d.stdout.strip():
            p = subprocess.run(['git', '-C', self.dir, 'apply'], input=d.stdout, text=True)
        if self.patch:
            r = sh(['git', '-C', self.dir, 'apply', os.path.abspath(self.patch)])
            if r.returncode:
                self.__exit__()
                raise SystemExit(f'patch does not apply: {r.stdout}')
        return self.dir

    def __exit__(self, *a):
        sh(['git', '-C', REPO, 'worktree', 'remove', '--force', self.dir])
        shutil.rmtree(self.dir, ignore_errors=True)
        sh(['git', '-C', REPO, 'worktree', 'prune'])


def run_tests(wt):
    junit = os.path.join(wt, '.junit.xml')
    env = dict(os.environ, PYTHONPATH=f'{wt}:{wt}/user_scripts', PYTHONDONTWRITEBYTECODE='1')
    env.pop('PERO_OCR_VERIF', None)
    r = sh(f'cd {wt} && /venv/bin/python -m pytest -q -p no:cacheprovider --timeout=900 --continue-on-collection-errors '
           f'--junitxml={junit} test', env=env)
    import xml.etree.ElementTree as ET
    passed = set()
    for tc in ET.parse(junit).getroot().iter('testcase'):
        if not list(tc):
            passed.add(f"{tc.get('classname')}::{tc.get('name')}")
    os.remove(junit)
    stable = set(BASE.get('stable_pass', []))
    missing = sorted(stable - passed)
    return len(passed & stable), missing


def run_demo(wt, demo):
    env = dict(os.environ, PYTHONPATH=f'{wt}:{wt}/user_scripts', PYTHONDONTWRITEBYTECODE='1')
    r = sh(['/venv/bin/python', os.path.abspath(demo)], cwd=wt, env=env, timeout=1200)
    return r.returncode, r.stdout[-600:]


def confirm(d, tests):
    patch, demo = os.path.join(d, 'patch.diff'), os.path.join(d, 'demo.py')
    out = {'dir': d}
    with Worktree() as wt:
        out['demo_clean_rc'], _ = run_demo(wt, demo)
    with Worktree(patch) as wt:
        out['demo_patched_rc'], out['demo_patched_tail'] = run_demo(wt, demo)
        if tests:
            n, missing = run_tests(wt)
            out['tests_stable_passed'], out['tests_missing'] = n, missing
    out['ok'] = out['demo_clean_rc'] == 0 and out['demo_patched_rc'] != 0 and (not tests or not out['tests_missing'])
    return out


def detect(sid, tier):
    d = os.path.join(V, 'seeded', sid)
    meta = json.load(open(os.path.join(d, 'meta.json')))
    res = {}
    with Worktree(os.path.join(d, 'patch.diff')) as wt:
        for prop in meta.get('checks', [meta['property']]):
            env = dict(os.environ, VERIF_REPO=wt)
            t0 = time.time()
            r = sh([os.path.join(V, 'check'), prop, '--tier', tier, '--no-evidence'], env=env)
            viol = [l for l in r.stdout.splitlines() if l.startswith('VIOLATION')]
            keys = [l.split('witness_key=')[1].split()[0] for l in r.stdout.splitlines() if 'witness_key=' in l and l.startswith('  clause=')]
            res[prop] = {'rc': r.returncode, 'violations': len(viol), 'keys': keys[:6], 'wall': round(time.time() - t0, 1),
                         'tail': r.stdout[-300:] if r.returncode not in (0, 1) else ''}
    return res


def main():
    ap = argparse.ArgumentParser()
    ap.add_argument('mode', choices=['confirm', 'detect'])
    ap.add_argument('targets', nargs='+')
    ap.add_argument('--tests', action='store_true')
    ap.add_argument('--tier', default='quick')
    a = ap.parse_args()
    if a.mode == 'confirm':
        for d in a.targets:
            print(json.dumps(confirm(d, a.tests), indent=1))
    else:
        ids = a.targets
        if ids == ['all']:
            ids = sorted(x for x in os.listdir(os.path.join(V, 'seeded')) if os.path.exists(os.path.join(V, 'seeded', x, 'meta.json')))
        bad = 0
        for sid in ids:
            r = detect(sid, a.tier)
            caught = any(x['rc'] == 1 for x in r.values())
            bad += not caught
            mp = os.path.join(V, 'seeded', sid, 'meta.json')
            meta = json.load(open(mp))
            meta['detected'] = {p: {'rc': x['rc'], 'keys': x['keys'], 'tier': a.tier} for p, x in r.items()}
            meta['detected_with'] = {'verif_commit': sh(['git', '-C', V, 'rev-parse', '--short', 'HEAD']).stdout.strip(),
                                     'repo_commit': sh(['git', '-C', '/repo', 'rev-parse', '--short', 'HEAD']).stdout.strip()}
            json.dump(meta, open(mp, 'w'), indent=1)
            print(('CAUGHT ' if caught else 'MISSED ') + sid + ' ' + json.dumps(r))
            sys.stdout.flush()
        sys.exit(1 if bad else 0)


if __name__ == '__main__':
    main()
