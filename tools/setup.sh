#!/bin/bash
# Offline setup after a fresh restore: nothing to build or fetch; create scratch dirs and make sure the
# launcher is executable.  Stub networks are generated from source at check time (mc/stubs.py).
set -e
cd "$(dirname "$0")/.."
mkdir -p .cache evidence replays
chmod +x check tools/*.py tools/*.sh 2>/dev/null || true
/venv/bin/python -c "import sys; sys.path.insert(0,'/repo'); import pero_ocr, numpy, torch, cv2, shapely, lxml; print('setup ok', pero_ocr.__file__)"
