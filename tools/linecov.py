#!/venv/bin/python
"""Which lines of the code under test does a check execute at all?

  tools/linecov.py run [C07 ...|all] [--tier quick]    run the checks with VERIF_LINECOV set, keep the hit sets under .cache/linecov
  tools/linecov.py report [file-substring ...]          executable lines of the property-relevant files that NO check executed

A line that is never executed cannot be observed by any oracle, so a change there cannot be detected; the report is a list of places
where the drivers have to be extended (or that are out of every property's scope).  Diagnostic only - it decides nothing."""
import argparse, ast, glob, json, os, subprocess, sys

V = os.path.dirname(os.path.dirname(os.path.abspath(__file__)))
REPO = os.path.abspath(os.environ.get('VERIF_REPO', '/repo'))
OUT = os.path.join(V, '.cache', 'linecov')


def executable_lines(path):
    src = open(path).read()
    code = compile(src, path, 'exec')
    lines, todo = set(), [code]
    while todo:
        c = todo.pop()
        for _, _, ln in c.co_lines():
            if ln:
                lines.add(ln)
        todo.extend(k for k in c.co_consts if hasattr(k, 'co_lines'))
    # drop docstring-only / def lines: keep as they are, they are hit at import
    return lines, src.splitlines()


def func_ranges(path):
    tree = ast.parse(open(path).read())
    out = []
    for n in ast.walk(tree):
        if isinstance(n, (ast.FunctionDef, ast.AsyncFunctionDef)):
            out.append((n.lineno, n.end_lineno, n.name))
    return sorted(out)


def main():
    ap = argparse.ArgumentParser()
    ap.add_argument('mode', choices=['run', 'report'])
    ap.add_argument('args', nargs='*')
    ap.add_argument('--tier', default='quick')
    a = ap.parse_args()
    if a.mode == 'run':
        props = a.args
        if not props or props == ['all']:
            props = [c['property_id'] for c in json.load(open(os.path.join(V, 'MANIFEST.json')))['checks']]
        for p in props:
            for f in glob.glob(os.path.join(OUT, f'{p}-*.json')):
                os.remove(f)
            r = subprocess.run([os.path.join(V, 'check'), p, '--tier', a.tier, '--no-evidence'], env=dict(os.environ, VERIF_LINECOV=OUT),
                               stdout=subprocess.PIPE, stderr=subprocess.STDOUT, text=True)
            print(p, 'rc', r.returncode, [l for l in r.stdout.splitlines() if l.startswith('[')][-1:])
        return
    hits = {}
    for f in glob.glob(os.path.join(OUT, '*.json')):
        prop = os.path.basename(f).split('-')[0]
        for fn, ln in json.load(open(f)):
            hits.setdefault(fn, {}).setdefault(ln, set()).add(prop)
    files = sorted(set(glob.glob(os.path.join(REPO, 'pero_ocr', '**', '*.py'), recursive=True)) |
                   {os.path.join(REPO, 'user_scripts', x) for x in ('parse_folder.py', 'merge_ocr_results.py')})
    for path in files:
        rel = os.path.relpath(path, REPO)
        if a.args and not any(s in rel for s in a.args):
            continue
        ex, src = executable_lines(path)
        got = hits.get(rel, {})
        miss = sorted(ex - set(got))
        if not got and not a.args:
            print(f'-- {rel}: never imported/executed by any check ({len(ex)} executable lines)')
            continue
        fr = func_ranges(path)
        print(f'== {rel}: {len(ex) - len(miss)}/{len(ex)} executable lines executed')
        cur = None
        for ln in miss:
            fn = [n for lo, hi, n in fr if lo <= ln <= hi]
            name = fn[-1] if fn else '<module>'
            if name != cur:
                cur = name
                print(f'   in {name}:')
            print(f'     {ln:4d}  {src[ln - 1].strip()[:110]}')


if __name__ == '__main__':
    main()
