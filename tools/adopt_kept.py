#!/usr/bin/env python3
"""Copy a confirmed behaviour-preserving change from <out>/<prop>/<X> into /verif/kept/<prop>-<X>/ with meta.json.
usage: adopt_kept.py <confirm-log> ...   (reads the JSON objects printed by keep_run.py confirm)"""
import json, os, re, shutil, sys
V = os.path.dirname(os.path.dirname(os.path.abspath(__file__)))
dec = json.JSONDecoder()
for log in sys.argv[1:]:
    txt = open(log).read()
    try:
        obj, _ = dec.raw_decode(txt[txt.index('{'):])
    except ValueError:
        print('UNREADABLE', log); continue
    if not obj.get('ok'):
        print('NOT OK', obj.get('dir'), obj.get('demo_clean_rc'), obj.get('demo_patched_rc'), obj.get('tests_missing')); continue
    m = re.search(r'/(C\d+)/([A-Z])$', obj['dir'])
    prop, x = m.group(1), m.group(2)
    dst = os.path.join(V, 'kept', f'{prop}-{x}')
    os.makedirs(dst, exist_ok=True)
    for f in ('patch.diff', 'demo.py', 'notes.md', 'reference.json'):
        src = os.path.join(obj['dir'], f)
        if os.path.exists(src) and (f != 'reference.json' or os.path.getsize(src) < 300000):      # big references are re-created by the demo on the clean tree
            shutil.copy(src, os.path.join(dst, f))
    meta = {'property': prop, 'origin': 'independent sub-agent asked for a substantial change that PRESERVES the property (only the property text and a scratch worktree were given)',
            'why_preserving': open(os.path.join(dst, 'notes.md')).read()[:1500],
            'confirmed': {'how': 'tools/keep_run.py confirm (scratch worktree of /repo HEAD, removed afterwards)',
                          'demo_comparison': obj.get('mode', 'identical digest'),
                          'baseline_stable_tests_passed_with_patch': obj.get('tests_stable_passed')}}
    json.dump(meta, open(os.path.join(dst, 'meta.json'), 'w'), indent=1)
    print('adopted', prop, x)
