#!/venv/bin/python
"""Regenerates /verif/MANIFEST.json from the table below (kept valid at all times)."""
import json, os
V = os.path.dirname(os.path.dirname(os.path.abspath(__file__)))
props = [json.loads(l) for l in open(os.path.join(V, 'properties.jsonl'))]

import importlib, pkgutil, sys
sys.path[0:0] = [V]
import props as _props
CHECKS = {}
for _m in pkgutil.iter_modules(_props.__path__):
    _mod = importlib.import_module('props.' + _m.name)
    if hasattr(_mod, 'MANIFEST') and not getattr(_mod, 'DISABLED', False):
        _x = _mod.MANIFEST
        CHECKS[_mod.ID] = (_x['technique'], _x['text'], _x['note'], _x['ref'])
NOT_YET = 'check not yet built in this revision of /verif (planned: DESIGN.md section 3)'

checks, na = [], []
for p in props:
    pid = p['id']
    if pid in CHECKS:
        tech, text, note, ref = CHECKS[pid]
        checks.append({
            'property_id': pid,
            'quick_cmd': f'./check {pid} --tier quick',
            'thorough_cmd': f'./check {pid} --tier thorough',
            'evidence_file': f'/verif/evidence/{pid}.json',
            'replay_cmd_template': f'./check {pid} --replay {{path}}',
            'engine': 'mc-explorer',
            'level_claimed': {'category': 'model_checking', 'text': text, 'design_ref': ref},
            'level_note': note,
            'technique': tech,
        })
    else:
        na.append({'property_id': pid, 'reason': NOT_YET})
m = {
 'version': 1,
 'setup_cmd': 'cd /verif && ./tools/setup.sh',
 'hooks': {'guard': 'PERO_OCR_VERIF', 'enable': 'no source hooks are needed: checks import /repo\'s working tree directly (sys.path) and reach every seam from outside; ./check exports PERO_OCR_VERIF=1 (reserved, unused by the sources)',
           'baseline_off_cmd': 'cd /repo && env -u PERO_OCR_VERIF /venv/bin/python -m pytest -ra -q -p no:cacheprovider --timeout=900 --continue-on-collection-errors',
           'source_commits': [], 'add_only': True},
 'engines': [{'name': 'mc-explorer', 'path': '/verif/mc', 'serves_properties': sorted(CHECKS),
              'kind_free_text': 'hand-written explicit-state / stateless explorer for Python: enumerates every case of a bounded space (input trees, operation histories, crash points, configuration lattices), executes the real pero-ocr code on each, compares with boring reference models; 16 forked workers; replay of each violation in a fresh interpreter'}],
 'checks': checks,
 'not_applicable': na,
 'notes': 'exit 0 = held on everything explored, 1 = VIOLATION line(s), 2 = harness error (no verdict). VERIF_SEED only seeds the library\'s own RNG use; it never selects cases. VERIF_REPO (default /repo) selects the tree under test.',
}
json.dump(m, open(os.path.join(V, 'MANIFEST.json'), 'w'), indent=1)
print(len(checks), 'checks,', len(na), 'not applicable')
