#!/usr/bin/env python3
"""Prints the markdown table 'which check catches which seeded change' from seeded/*/meta.json;
with --write it replaces the text between the SEED_TABLE markers in DESIGN.md."""
import json, os, re, sys
V = os.path.dirname(os.path.dirname(os.path.abspath(__file__)))
rows = []
for d in sorted(os.listdir(os.path.join(V, 'seeded'))):
    mp = os.path.join(V, 'seeded', d, 'meta.json')
    if not os.path.exists(mp):
        continue
    m = json.load(open(mp))
    patch = open(os.path.join(V, 'seeded', d, 'patch.diff')).read()
    files = sorted({l[6:].strip() for l in patch.splitlines() if l.startswith('+++ b/')})
    det = m.get('detected', {})
    caught = [f"{p}: {', '.join(k.split('/', 1)[-1] for k in v.get('keys', [])[:2])}" for p, v in det.items() if v.get('rc') == 1]
    first = next((l.strip('# *-').strip() for l in m.get('needs_to_manifest', '').splitlines() if len(l.strip()) > 25), '')
    rows.append(f"| {d} | {', '.join(os.path.basename(f) for f in files)} | {first[:110]} | {'; '.join(caught) if caught else ('MISSED' if det else 'not run')} |")
table = '| seeded change | file(s) | what it is (from its notes) | caught by (witness keys) |\n|---|---|---|---|\n' + '\n'.join(rows)
if '--write' in sys.argv:
    dp = os.path.join(V, 'DESIGN.md')
    t = open(dp).read()
    a, b = '<!-- SEED_TABLE_BEGIN -->', '<!-- SEED_TABLE_END -->'
    n_caught = sum('MISSED' not in r and 'not run' not in r for r in rows)
    head = f'{n_caught} of {len(rows)} seeded changes are reported by the quick tier of the checks named (last `detect all` run):\n\n'
    t = t[:t.index(a) + len(a)] + '\n' + head + table + '\n' + t[t.index(b):]
    open(dp, 'w').write(t)
    print(f'DESIGN.md table rewritten: {n_caught}/{len(rows)}')
else:
    print(table)
