#!/usr/bin/env python3
"""Prints the markdown table 'which check catches which seeded change' from seeded/*/meta.json."""
import json, os, re
V = os.path.dirname(os.path.dirname(os.path.abspath(__file__)))
rows = []
for d in sorted(os.listdir(os.path.join(V, 'seeded'))):
    mp = os.path.join(V, 'seeded', d, 'meta.json')
    if not os.path.exists(mp):
        continue
    m = json.load(open(mp))
    patch = open(os.path.join(V, 'seeded', d, 'patch.diff')).read()
    files = sorted({l[6:].strip() for l in patch.splitlines() if l.startswith('+++ b/')})
    det = m.get('detected', {})
    caught = [f"{p}: {', '.join(k.split('/', 1)[-1] for k in v.get('keys', [])[:2])}" for p, v in det.items() if v.get('rc') == 1]
    first = next((l.strip('# *-').strip() for l in m.get('needs_to_manifest', '').splitlines() if len(l.strip()) > 25), '')
    rows.append(f"| {d} | {', '.join(os.path.basename(f) for f in files)} | {first[:110]} | {'; '.join(caught) if caught else ('MISSED' if det else 'not run')} |")
print('| seeded change | file(s) | what it is (from its notes) | caught by (witness keys) |\n|---|---|---|---|')
print('\n'.join(rows))
