#!/usr/bin/env python3
"""Run the checks against BEHAVIOUR-PRESERVING changes (refactorings written by independent sub-agents): every check must stay silent.

  keep_run.py confirm <dir-with-patch.diff+demo.py>     patch applies, baseline tests unchanged, demo output identical clean vs patched
  keep_run.py silent  <kept-id ...|all> [--tier quick]  run the check of the change's own property and of every property anchored in a file
                                                        the patch touches (scratch worktree + VERIF_REPO); expect exit 0 everywhere

Scratch worktrees live under /tmp and are removed straight away.  Nothing is ever applied to /repo itself.
"""
import argparse, json, os, re, subprocess, sys, time

V = os.path.dirname(os.path.dirname(os.path.abspath(__file__)))
sys.path.insert(0, os.path.join(V, 'tools'))
from mutation_run import Worktree, run_tests, sh  # noqa


def demo_output(wt, demo):
    env = dict(os.environ, PYTHONPATH=f'{wt}:{wt}/user_scripts', PYTHONDONTWRITEBYTECODE='1', PYTHONHASHSEED='0')
    r = sh(['/venv/bin/python', os.path.abspath(demo)], cwd=wt, env=env, timeout=2400)
    return r.returncode, r.stdout[-800:]


def confirm(d):
    patch, demo = os.path.join(d, 'patch.diff'), os.path.join(d, 'demo.py')
    out = {'dir': d}
    with Worktree() as wt:
        out['demo_clean_rc'], out['demo_clean_tail'] = demo_output(wt, demo)
    with Worktree(patch) as wt:
        out['demo_patched_rc'], out['demo_patched_tail'] = demo_output(wt, demo)
        n, missing = run_tests(wt)
        out['tests_stable_passed'], out['tests_missing'] = n, missing
    digest = lambda t: re.findall(r'\b[0-9a-f]{32,64}\b', t.lower())      # the hash(es) the differential demo prints
    out['digest_clean'], out['digest_patched'] = digest(out['demo_clean_tail']), digest(out['demo_patched_tail'])
    if os.path.exists(os.path.join(d, 'reference.json')):
        # round-off-level changes: the demo compares with its own reference file (written on the clean tree) within stated tolerances
        out['mode'] = 'tolerant comparison with reference.json'
        out['ok'] = out['demo_clean_rc'] == 0 and out['demo_patched_rc'] == 0 and 'MATCH' in out['demo_clean_tail'] and \
            'MATCH' in out['demo_patched_tail'] and 'DIFFERENT' not in out['demo_patched_tail'] and not out['tests_missing']
    else:
        out['mode'] = 'identical digest'
        out['ok'] = out['demo_clean_rc'] == 0 and out['demo_patched_rc'] == 0 and bool(out['digest_clean']) and \
            out['digest_clean'] == out['digest_patched'] and not out['tests_missing']
    return out


def props_for(patch, own):
    files = re.findall(r'^\+\+\+ b/(\S+)', open(patch).read(), flags=re.M)
    props = [own]
    for line in open(os.path.join(V, 'properties.jsonl')):
        p = json.loads(line)
        if any(f in p['anchors']['files'] for f in files) and p['id'] not in props:
            props.append(p['id'])
    return props


def silent(kid, tier, own=False):
    d = os.path.join(V, 'kept', kid)
    meta = json.load(open(os.path.join(d, 'meta.json')))
    res = {}
    with Worktree(os.path.join(d, 'patch.diff')) as wt:
        for prop in ([meta['property']] if own else props_for(os.path.join(d, 'patch.diff'), meta['property'])):
            t0 = time.time()
            r = sh([os.path.join(V, 'check'), prop, '--tier', tier, '--no-evidence'], env=dict(os.environ, VERIF_REPO=wt))
            keys = [l.split('witness_key=')[1].split()[0] for l in r.stdout.splitlines() if 'witness_key=' in l and l.startswith('  clause=')]
            res[prop] = {'rc': r.returncode, 'keys': keys[:6], 'wall': round(time.time() - t0, 1),
                         'tail': r.stdout[-400:] if r.returncode != 0 else ''}
    return res


def main():
    ap = argparse.ArgumentParser()
    ap.add_argument('mode', choices=['confirm', 'silent'])
    ap.add_argument('targets', nargs='+')
    ap.add_argument('--tier', default='quick')
    ap.add_argument('--own', action='store_true', help="silent: only the check of the change's own property")
    a = ap.parse_args()
    if a.mode == 'confirm':
        for d in a.targets:
            print(json.dumps(confirm(d), indent=1))
        return
    ids = a.targets
    if ids == ['all']:
        ids = sorted(x for x in os.listdir(os.path.join(V, 'kept')) if os.path.exists(os.path.join(V, 'kept', x, 'meta.json')))
    bad = 0
    for kid in ids:
        r = silent(kid, a.tier, a.own)
        quiet = all(x['rc'] == 0 for x in r.values())
        bad += not quiet
        mp = os.path.join(V, 'kept', kid, 'meta.json')
        meta = json.load(open(mp))
        meta.setdefault('checks_run', {}).update({p: {'rc': x['rc'], 'keys': x['keys'], 'tier': a.tier} for p, x in r.items()})
        json.dump(meta, open(mp, 'w'), indent=1)
        print(('SILENT ' if quiet else 'ALARM  ') + kid + ' ' + json.dumps(r))
        sys.stdout.flush()
    sys.exit(1 if bad else 0)


if __name__ == '__main__':
    main()
